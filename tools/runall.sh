#!/bin/bash
# Runs every registered check (quick tier unless $1 is given) and prints one line per check.
cd /verif
tier=${1:-quick}
export GOFLAGS=-mod=mod GOPROXY=off GOSUMDB=off GOTOOLCHAIN=local
for p in $(python3 -c "import json;print(' '.join(c['property_id'] for c in json.load(open('MANIFEST.json'))['checks']))"); do
  s=$(date +%s)
  out=$(python3 check.py $p --tier $tier 2>&1); rc=$?
  e=$(date +%s)
  echo "$p rc=$rc $((e-s))s $(echo "$out" | grep -E "^$p " | cut -c1-120)"
  if [ $rc -ne 0 ]; then echo "$out" | grep -E "VIOLATION|INCONCLUSIVE|violation" | cut -c1-300 | head -5; fi
done
