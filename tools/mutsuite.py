#!/usr/bin/env python3
"""Runs the pinned suite of /repo on every mutant (go -overlay) and writes mutants/SUITE.txt."""
import glob, os, shutil, subprocess, sys, tempfile
sys.path.insert(0, os.path.dirname(os.path.abspath(__file__)))
import mutate
out = open(os.path.join(mutate.ROOT, "mutants", "SUITE.txt"), "w")
for f in sorted(glob.glob(os.path.join(mutate.ROOT, "mutants", "c*", "*.diff"))):
    tmp = tempfile.mkdtemp(prefix="verif-mut-")
    try:
        try:
            ov = mutate.make_overlay(f, tmp)
        except RuntimeError:
            res = "does-not-apply"
        else:
            r = subprocess.run(["go", "test", "-vet=off", "-count=1", "-overlay", ov, "./..."], cwd="/repo", env=mutate.ENV, capture_output=True, text=True)
            res = "passes" if r.returncode == 0 else "FAILS"
        out.write("%s %s %s\n" % (os.path.basename(os.path.dirname(f)).upper(), os.path.basename(f), res)); out.flush()
    finally:
        shutil.rmtree(tmp, ignore_errors=True)
