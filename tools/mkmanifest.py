#!/usr/bin/env python3
"""Regenerates /verif/MANIFEST.json from the table below (one entry per claimed property)."""
import json, os
ROOT = os.path.dirname(os.path.dirname(os.path.abspath(__file__)))

CLAIMS = {
 "C01": dict(
  technique="round-trip PBT (rapid) over generated node forests + exhaustive enumeration of all small forests over a reduced alphabet",
  text="Exploration: every ordered forest with <= 3 (quick) / <= 4 (thorough) nodes over 32 labels x BOM is enumerated completely, and random forests (<= 300 nodes, forced chains to depth 99, all registered and custom tags, records, role nodes inside/after families, hostile values, nested pointers) are built through the public API or by decoding harness-rendered text; each is encoded, decoded and compared node by node (tag, value, pointer, order, nesting, Go type, BOM). Shrunk failures are replay files.",
  note="Trusted: the comparison walks public accessors only; legality of parts as stated in the property (values pre-trimmed with strings.TrimSpace). Role nodes before any family are outside the quantifier.",
  design="6.1"),
 "C02": dict(
  technique="model-based PBT (rapid): generated GEDCOM byte streams vs a hand-written reference line grammar/tree builder, plus encode/decode fixpoint; native go fuzzing with the same oracle in thorough",
  text="Exploration: structured texts with random level walks, mixed CR/LF/CRLF terminators, blank lines, BOM, space runs, xrefs, padded values, continuation lines and over-deep jumps (and byte-mutated variants) are decoded under all four AllowMultiLine x AllowInvalidIndents combinations; the decoded tree must equal the tree built by an independent reference scanner (no regexp, no shared code), and the re-encoded text must be a fixpoint that the reference grammar reads as the same tree. Thorough adds a coverage-guided native fuzz campaign with the oracle inside the target.",
  note="Trusted: internal/ref/lines.go (about 250 lines), strings.TrimSpace. Inputs outside the strict documented grammar (several blanks after an xref, tag glued to other bytes, role lines before any family, over-deep first line) are not judged against the model; the fixpoint clauses still apply.",
  design="6.2"),
 "C03": dict(
  technique="robustness PBT + exhaustive truncation of adversarial constants (rapid), native go fuzzing with a hostile seed corpus in thorough; validity-predicate oracle",
  text="Exploration: ten classes of byte streams (uniform bytes, GEDCOM-alphabet bytes, truncated and byte-mutated structured text, the adversarial shapes named in the property, 1 MB lines, 3000 nesting levels) x all option combinations, and every prefix of every adversarial constant exhaustively. Oracle: the call returns, exactly one of document/error is set, the error quotes the offending line with a line number consistent with the input, and the only accepted panic is 'indent is too large' while invalid indents are not allowed.",
  note="Trusted: reference scanner for locating the first unparsable line; either line-numbering convention (non-blank lines / all terminators) is accepted. Reader I/O errors are out of scope.",
  design="6.3"),
 "C04": dict(
  technique="grammar-based PBT with meaning known by construction: exhaustive keyword x case x shape x month-spelling enumeration, rapid-generated sentences and ranges, exhaustive near-miss lists",
  text="Exploration: every keyword spelling x letter case x shape x month spelling x leading-zero form is enumerated with boundary numeric fields, random singles and ranges (4 between-words x 3 and-words, 1-4 spaces) are drawn with rapid, and ~14,000 near misses (unknown month words, day 0/32, impossible days incl. 29 Feb 1700/1800/1900, missing year, trailing text, alone and at either end of a range) must be invalid. The oracle never parses: day, month, year and constraint of both ends, the canonical spelling and the print-parse round trip are computed from the blueprint.",
  note="Trusted: the generator's own spelling tables (copied from the Date documentation). Not covered because not clearly documented: years with leading zeros, >1 leading zero on days, >4 consecutive spaces.",
  design="6.4"),
 "C06": dict(
  technique="exhaustive enumeration of all range pairs in day windows + rapid PBT over mixed granularities, against a 13-relation interval-algebra oracle with converse table",
  text="Exploration: all ordered pairs [a,b] x [c,d] inside four 14-day (thorough 20-day) windows (leap day, year end, lower and upper limit of the calendar) are enumerated completely, and random forward ranges with day/month/year endpoints over years 1..9999 are drawn; the result must be one of the relations whose defining endpoint constraints (documentation diagram) hold, never Invalid, converse under operand swap, Equal on identical intervals, and exactly one simplified verdict must hold.",
  note="Trusted: 13 predicates over civil-day numbers and the converse table in checks/c06; operand convention taken from TestDateRange_Compare. Backward ranges are outside the statement.",
  design="6.6"),
 "C07": dict(
  technique="algebraic-law PBT (rapid): reflexivity up to copy, permutation invariance (all permutations of small child lists), symmetry, edit sensitivity, aliasing after mutation",
  text="Exploration: random trees over every node kind with its own equality rule (biased to several same-kind and duplicate siblings) are built through the API; each is deep-copied into a fresh document (equal text, disjoint identity sets, source and source document unchanged, a later mutation of either side never shows in the other), compared with every permutation of each child list of up to 4 entries and with a random shuffle of all levels, compared symmetrically with independent trees, edited copies and same-kind value swaps, and with insert/delete/change edits of plain nodes which must never be deep-equal. One documented-behaviour finding (C07-F1: Before/After dates make Date.Equals a non-equivalence) is excluded by class and counted.",
  note="Trusted: identity via interface values and RawSimpleNode pointers; copies go to a fresh document. Cases inside finding class C07-F1 that fail are counted as excluded_known, passing behaviour inside the class is still checked.",
  design="6.7"),
 "C08": dict(
  technique="invariant-checking PBT (rapid) over generated tree pairs and operation sequences: accounting invariants on the NodeDiff, purity of inputs after every operation",
  text="Exploration: pairs of trees (independent, permuted copies, copies with uniquely tagged leaves inserted on either side) are diffed and then driven through random sequences of String/IsDeepEqual/Sort/Tag/CompareAgain. After CompareNodes and after every step: each entry side is, by identity, a node of the correct input at the entry's depth and never both absent; every input node is represented under the entry representing its parent; unique leaves give exactly one one-sided entry on the correct side; IsDeepEqual equals 'all two-sided' at every entry; deep-equal inputs give an all-two-sided diff; both inputs' GEDCOM text and node counts are unchanged. One documented-behaviour finding class (C08-F1) is excluded and counted.",
  note="Trusted: 'equal' for coverage = Equals either way or same tag/value/pointer; deep-equal premise computed with DeepEqual both ways.",
  design="6.8"),
 "C09": dict(
  technique="invariant-checking PBT (rapid) over generated tree/list pairs: two-way coverage, list-size bounds, instrumented merge function, freshness via identity sets and post-merge mutation",
  text="Exploration: MergeNodes on independent and overlapping (edited/permuted copy) tree pairs, MergeNodes(t,t), the error contract, and MergeNodeSlices on list pairs with the equality, always-merge and never-merge functions. Oracles: every input node below the roots is represented by an equal node under an equal parent and every result node stems from input nodes; max(|l|,|r|) <= |result| <= |l|+|r| (= max / = sum for always / never); an instrumented merge function shows each element merged at most once and merged results never offered again; self-merge keeps the node count when no two siblings are equal; the result shares no node with the inputs, inputs are unchanged by the merge and by a later mutation of the result. One documented-behaviour finding class (C09-F1) is excluded and counted.",
  note="Trusted: 'equal' = Equals either way or same tag/value/pointer; the caller-identified roots are not required to be equal; merges go into a fresh target document.",
  design="6.9"),
 "C10": dict(
  technique="PBT (rapid) over generated document pairs with marker-based accounting oracle and marker-tracked reference resolution; library call and query function",
  text="Exploration: referentially closed family-graph pairs (edited copies with equal or renumbered pointers, disjoint, clashing, empty) in which every person carries a unique marker and unique fact leaves are merged with default/strict/lenient thresholds. Accounting: the output decodes, every marker occurs exactly once, no two people of one document are merged, merged individuals hold all unique facts of both originals, inputs are unchanged. References: every HUSB/WIFE/CHIL resolves to an individual carrying the marker of a person the inputs name in that family and role, no input reference is lost, FAMS/FAMC resolve to families. The reference clauses are a listed finding (C10-F1) exactly when people were merged under different pointers or records share a pointer; they stay active otherwise, and accounting is active everywhere.",
  note="Trusted: marker leaves cannot be identified by any merge rule; class of a failing reference clause is computed from the output.",
  design="6.10"),
 "C11": dict(
  technique="PBT (rapid) with validity oracle + differential Jobs=N vs Jobs=1 under a no-tie premise; race detector on generated cases in child processes (GOMAXPROCS x Jobs x repetitions); CLI under -race",
  text="Exploration: generated pairs of individual lists (shared/disjoint pointers, shared/duplicated/malformed identifiers, renumbered and edited copies, identical twins, empty sides) x thresholds x Jobs {0,1,2,3,8,16}. Validity: every individual exactly once per side, no empty result, every pair justified by full weighted similarity, shared identifier or trusted pointer. Differential: identical pairs to the sequential run whenever the harness's own score matrix shows no tie and no duplicated identifier/pointer. Schedules: the same cases run in a -race build, one child process per case and GOMAXPROCS value (1/2/16), cold and warm caches, with repetitions; 'gedcom diff -jobs N' from a -race build must exit 0 without a race report and list every individual. Races are classified by their two innermost functions.",
  note="The harness does not own the Go scheduler: race freedom and schedule independence are what was observed on the executed schedules, not established (DESIGN.md 6.21).",
  design="6.11"),
 "C12": dict(
  technique="metamorphic PBT (rapid) + exhaustive string-pair enumeration: range, operand-swap symmetry, identity, monotonicity, shift invariance, neutral 0.5",
  text="Exploration: all ordered string pairs over {a,b} up to length 9 (thorough 10) and {a,b,c} up to 5 (6) are enumerated; random name pairs (punctuation, case, digits, other scripts; independent or edited copies) x boost/prefix parameters, random date triples (all shapes, keywords, ranges) x MaxYears, and pairs of random family graphs x default/random options (weights summing to 1) are generated. Oracles: every score in [0,1] and not NaN, f(a,b)=f(b,a) for strings, dates, individuals, lists, families and surrounding similarity, 1 on identical names/dates, date similarity monotone in |Years difference|, 0 beyond MaxYears, unchanged under a 400-year shift, exactly 0.5 for the documented missing-information cases and list padding.",
  note="Trusted: float tolerance 1e-12 only where the swap re-associates sums; a name is 'non-empty' when it has a letter or digit of any script.",
  design="6.12"),
 "C05": dict(
  technique="exhaustive enumeration of all days/months/years against an integer calendar oracle + rapid PBT for ordering and min/max",
  text="Exploration, exhaustive on the finite domain the property names: every one of the 3,652,059 days, 119,988 month-year and 9,999 year-only dates is built (struct and text route) and its bounds, length, Years containment and day-to-day monotonicity are compared with an integer Gregorian calendar cross-checked against time.Date; random day pairs and DateNodes lists cover IsBefore/IsAfter/Minimum/Maximum. Exhaustive sub-checks are marked in evidence.",
  note="Trusted: Go time.Date, internal/ref/calendar.go (40 lines), rapid. Years outside 1..9999 are outside the property.",
  design="6.5"),
 "C13": dict(
  technique="stateful / model-based PBT (rapid-generated operation histories, model = fresh decode of the current text) + exhaustive short histories over a small operation alphabet",
  text="Exploration of histories: operation lists (21 edit operations, 5 cache-warming reads, 10 read-only operations) are generated as data over random family graphs, and every sequence up to length 4 (thorough 5) over a 10-operation alphabet is enumerated on a fixed document. Immediately before each edit the selected views are read (so that caches are warm when the edit happens); after every edit and read-only step all views of the live document are read first and then compared with the same views on a fresh decode of Document.String(); read-only operations must leave the text byte-identical. Shrunk failing histories replay without rapid.",
  note="Trusted: views through public accessors only, compared as canonical strings; a view that panics must panic identically on the fresh decode. The live views are read before the fresh decode because decoding resets process-wide cache state. Document.SetNodes is not in the statement's edit list and not generated.",
  design="6.13"),
 "C14": dict(
  technique="robustness PBT (rapid) with structural fault injection into generated family graphs; oracle = exit status / stderr of the built CLI and recovered panics of library traversals; watchdogs for hangs",
  text="Exploration: random family graphs are perturbed by combinations of 20 structural fault kinds (dangling, wrong-kind and empty references, missing/odd names incl. invalid UTF-8, self and cyclic relations, duplicate pointers, empty families, untitled sources, odd dates, ...). Every decodable file goes to the built gedcom binary with a rotating third of ~100 command lines (warnings; publish x visibility x page switches x jobs; diff x show x sort; 20 documented-style queries x 5 formats; two-document queries) - exit 0 or exit 1 with an ERROR: line, never a panic/fatal error/exit 2/hang - and through the library traversals behind the commands in process (recovered panics, in-memory publish in three modes, 30 s watchdog). A run keeps every distinct crash signature.",
  note="Premise: the decoder accepts the file. A hang is two consecutive 20 s timeouts of a command that normally takes ~10 ms. 'tune' is not in the statement's list.",
  design="6.14"),
 "C15": dict(
  technique="exhaustive token-sequence enumeration + grammar-based PBT over reflected accessors (rapid) + mutated examples/random bytes + CLI sample; native go fuzzing in thorough; oracle: value-or-error, no panic/fatal/hang",
  text="Exploration: every token sequence up to length 3 (thorough 4) over a 40-token alphabet; well-formed programs of bounded depth whose accessors come from all method/field names reachable by reflection from *Document plus type-following chains that mostly evaluate to values; documented examples under token mutations; random bytes; on empty, tiny and family documents and with two documents; every value goes through all five formatters; a sample runs through the built 'gedcom query'. Oracle: ParseString gives exactly one of engine/error, Evaluate and every Formatter.Write return; recovered panics are classified by value and innermost frame and a run keeps every distinct signature; stack overflows are caught through the breadcrumb of the dying child; a 60 s watchdog reports hangs. Thorough adds a coverage-guided native fuzz target.",
  note="A fresh document per evaluation. Random-byte queries are bounded to 256 bytes (quadratic tokenizer). A panic that the engine recovers and returns as an error counts as an error.",
  design="6.15"),
 "C16": dict(
  technique="differential PBT (rapid): typed query ASTs evaluated by the engine vs a reflection-free reference interpreter that calls the Go API directly; metamorphic relations; exhaustive operator table",
  text="Exploration: well-typed programs (accessor chains over ten node/value types with nullability tracking, First/Last/Length/Only/Combine/NodesWithTagPath, objects, variables, all six operators) are generated as ASTs, printed, evaluated by the engine on random family graphs and compared as normalised JSON with a reference interpreter written with ordinary loops over direct Go API calls; determinism of re-parsing and engine reuse; metamorphic relations (variable inlining, E | Length, Combine(E,E) | Length, First/Last length and partition at k in {0,1,n-1,n,n+1}); every ordered pair of 24 constants under all six operators against the documented comparison rule, negation and trichotomy (exhaustive). One finding class (C16-F1: First/Last of an empty list) is excluded and counted.",
  note="Trusted: the reference interpreter (about 150 lines) and the typed accessor table; numeric = [0-9]+(.[0-9]+)?; null and [] are the same empty result; clock-reading accessors are not generated.",
  design="6.16"),
 "C17": dict(
  technique="marker-based PBT (rapid): unique marker tokens for every private string, marker search over all generated files + differential publishing (A vs A' differing only in living people's data) + positive control",
  text="Exploration: family graphs in which every name part, place and note is a unique marker, with living people in every role and every way of being living/dead that the code distinguishes (DEAT with/without date, age rule, no dates, burial without death), far from the 100-year boundary and cross-checked against IsLiving(); visibility hide/placeholder x page-group masks x jobs. Oracle: no file name or content (case-insensitive) contains a name marker that belongs to living people only; every non-living person has a page, is listed and shows their name; pages stay well formed; in hide mode two documents that differ only in the living people's names, dates, places and notes publish byte-identical files.",
  note="Living/dead is fixed by the generator with fixed years (valid while today is between 2004 and 2100). Markers shared with a non-living person legitimately appear and are not searched for.",
  design="6.17"),
 "C18": dict(
  technique="taint-tracking PBT (rapid): unique tokens carrying < > \" ' & in every value kind, searched for in unescaped form in every output; HTML tokenizer / well-nestedness oracle with a benign control",
  text="Exploration: documents in which ~40 value kinds (all name parts, sex, event values, dates, places, notes at three levels, identifiers, marriage/divorce data, source titles and properties incl. nested ones, optionally pointers) carry a unique token are published in every visibility mode with random page-group masks, rendered as diff reports (show x sort) against an edited copy, and written by the HTML query formatter. Oracle: at every occurrence of a token id the bytes up to its closing marker contain no raw < or >, no bare &, no raw double quote inside attribute values and no raw single quote inside event handlers; every page tokenises and is well nested (hand-written tokenizer); the same document with benign values is the control that attributes structural problems to content.",
  note="Trusted: internal/ref/html.go (tokenizer, void elements, '/>' self-closing, script/style raw text). Quotes in element content cannot change structure and are not judged. The HTML query formatter concatenates fragments, so only escaping is judged there.",
  design="6.18"),
 "C19": dict(
  technique="PBT (rapid) over hostile family graphs with a closed/confined/collision-free/deterministic site oracle on an in-memory FileWriter, exhaustive k-th-write fault injection, fresh-process history differential, race-detector children",
  text="Exploration: family graphs whose names, places and source pointers are drawn from hostile pools (../x, a/b, names of fixed pages, case and punctuation variants of one name, multi-byte and digit initials, pointers that collapse to one key) are published through the public Publisher into a FileWriter that keeps every file, for every visibility, random page-group masks, jobs 1/2/8/16 and repetitions. Oracle: every name handed to the writer is a plain file name; no name is handed over twice (attributed by the kinds of page that collide); every href / location.href of every page (hand-written tokenizer) is '#...', absolute or a generated file; the map name->bytes is identical for every jobs value and repetition, and identical to what a fresh process produces when another document was published first in this one. For every k up to the number of files the k-th WriteFile fails: Publish must return the error, not panic, not hang. A -race build of the same publishing runs as a child and any report is a violation.",
  note="Trusted: internal/ref/html.go (tokenizer, link extraction), the in-memory writer. Only exact name collisions are judged (no case folding). A collision makes the surviving page schedule-dependent, so determinism is judged on collision-free sites only. Known findings C19-F1 (no single namespace for fixed, source and entity pages) and C19-F2 (links into switched-off page groups) are attributed by exact signature; person/place, person/person, place/place and source/source collisions are not part of them.",
  design="6.19"),
 "C20": dict(
  technique="model-based PBT (rapid): warnings oracle evaluated on generated facts (day numbers) vs Document.Warnings(), metamorphic record/child reordering, CLI line count",
  text="Exploration: family graphs with exact dates are generated so that each warning condition is met or not met, with the boundaries that whole days decide generated exactly (sibling gaps 0/1/2/3 days, child born the day before/of/after a parent's birth, later-group events the day before/of an earlier-group event) and margins only around the approximate thresholds (16 and 100 years, 9 months). The expected multiset of (kind, people, dates) is computed from the blueprint alone and must equal the typed projection of Document.Warnings() (name, context, people named in the message), also after reversing records and children; the built 'gedcom warnings' binary must print exactly one line per warning.",
  note="Trusted: the conditions as documented (EstimatedBirthDate/EstimatedDeathDate fallbacks included); inside the stated bands a warning is optional; a marriage before the spouse's birth is not judged; unparsable dates only in RESI/ENGA events; all dates before 1975.",
  design="6.20"),
}

SCALE = {
 "C06": " A fifth of the random ranges are longer than 292 years (up to the whole calendar).",
 "C07": " One tree in 40 has a sibling list of 40..160 nodes (class wide:>=40-siblings in evidence).",
 "C08": " One tree in 30 has a sibling list of 40..160 nodes; several goroutines also compare never-read trees at once and must get the single caller's diff.",
 "C09": " One tree in 30 has a sibling list of 40..160 nodes; lists are also merged through MergeDocuments (nil document = empty side).",
 "C10": " One pair in 60 has 20..45 people per side and one in 500 has 258..330 (classes big / huge in evidence).",
 "C11": " One pair in 60 has 20..40 people per side; a history sub-check edits the documents through the API and compares the matching with that of the same texts decoded from nothing.",
 "C12": " Surrounding similarity is computed with and without forceFullCalculation; names up to 180 bytes; one pair in 80 has 20..40 people.",
 "C13": " One start document in 120 has 30..100 people; records are added under pointers already in use and the record added last is deleted; a quarter of the histories are read by 6 goroutines at once after every step.",
 "C14": " One file in 120 has 25..50 people; names up to 180 bytes.",
 "C15": " Variables are also referred to in another case than their definition.",
 "C16": " A returned result must stay what it was while a companion query runs on the same document; one document in 60 has 25..300 people.",
 "C17": " One document in 40 has 25..70 people (more than 32 places); dead people may carry exactly the name of another dead person.",
 "C18": " One document in 100 has 15..30 people; the nameless person has no NAME line, an empty one or '//'.",
 "C19": " One document in 50 (first sub-check) has 25..70 people; names, places and source pointers of up to 420 bytes that differ in their last byte only.",
 "C20": " One document in 25 has a family of 13..22 children; the HTML table rendered from the report must have one row per warning.",
}

NOT_YET = "check not built yet in this session (see DESIGN.md section 6 for the plan)"

def main():
    props = [json.loads(l) for l in open(os.path.join(ROOT, "properties.jsonl"))]
    checks, na = [], []
    for p in props:
        pid = p["id"]
        c = CLAIMS.get(pid)
        if not c or not os.path.isdir(os.path.join(ROOT, "checks", pid.lower())):
            na.append({"property_id": pid, "reason": NOT_YET})
            continue
        checks.append({
            "property_id": pid,
            "quick_cmd": "python3 check.py %s --tier quick" % pid,
            "thorough_cmd": "python3 check.py %s --tier thorough" % pid,
            "evidence_file": "/verif/evidence/%s.json" % pid,
            "replay_cmd_template": "python3 check.py %s --replay {path}" % pid,
            "engine": "gocheck",
            "level_claimed": {"category": "exploration", "text": c["text"] + SCALE.get(pid, ""), "design_ref": "DESIGN.md " + c["design"]},
            "level_note": c["note"],
            "technique": c["technique"],
        })
    m = {
        "version": 1,
        "setup_cmd": "python3 check.py --setup",
        "hooks": {
            "guard": "verif",
            "enable": "go build/test -tags verif (passed by check.py to every build; no hook is currently needed, so the tag guards nothing)",
            "baseline_off_cmd": "cd /repo && go test -vet=off -count=1 ./...",
            "source_commits": [],
            "add_only": True,
        },
        "engines": [{
            "name": "gocheck", "path": "/verif/check.py",
            "serves_properties": [c["property_id"] for c in checks],
            "kind_free_text": "python driver that rebuilds one Go test package per property (checks/cNN) against /repo via a replace directive, runs it as N seeded child processes (pgregory.net/rapid v1.3.0 generators and state machines, exhaustive enumerators, Go native fuzzing in the thorough tier), merges evidence fragments, attributes failures to known_findings.json and saves shrunk replays",
        }],
        "checks": checks,
        "notes": "All checks are property-based tests / fuzzers with explicit oracles (DESIGN.md). Exit 0 held, 1 VIOLATION, 2 inconclusive (build failure, guard timeout). known_findings.json lists open findings (printed as KNOWN-FINDING lines) and fixed defects.",
        "not_applicable": na,
    }
    with open(os.path.join(ROOT, "MANIFEST.json"), "w") as f:
        json.dump(m, f, indent=1)
        f.write("\n")

if __name__ == "__main__":
    main()
