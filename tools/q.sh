#!/bin/bash
# usage: tools/q.sh <PROP> <worktree-suffix> <seeded-id> <run-pattern> [pkgdir]  - queues an import (one at a time, flock)
(flock /tmp/imp.lock /verif/tools/imp2.sh "$@" > /tmp/imp-$3.log 2>&1 &)
