#!/bin/bash
# usage: tools/seed_import.sh <PROP> <worktree> <seeded-id> <demo-copy-dest> <demo go test args...>
# Verifies a seeded breaking change produced in a scratch worktree (suite passes with it, demo fails with
# it and passes without it), stores it under /verif/seeded/<id>/ and runs the check of the property on it.
set -u
PROP=$1; WT=$2; ID=$3; DEST=$4; shift 4
export GOFLAGS=-mod=mod GOPROXY=off GOSUMDB=off GOTOOLCHAIN=local
cd "$WT" || exit 2
out=/verif/seeded/$ID; mkdir -p $out; cp -r seed/* $out/
# make sure the patch is applied
git apply --check -R seed/patch.diff 2>/dev/null || git apply seed/patch.diff
suite=$(go build ./... 2>&1 && go test -vet=off -count=1 $(go list ./... | grep -v "/seed$") 2>&1); if echo "$suite" | grep -q "^FAIL\|^--- FAIL\|cannot\|undefined"; then S1="SUITE-FAILS-WITH-CHANGE"; else S1="suite passes with change"; fi
demo=$(ls seed/*_test.go seed/*_test.go.txt seed/demo* 2>/dev/null | head -1); [ -n "$demo" ] || { echo "NO DEMO FOUND in seed/"; }
cp $demo "$DEST"
if go test -vet=off -count=1 "$@" >/tmp/seed_demo_with.log 2>&1; then D1="DEMO-PASSES-WITH-CHANGE(!)"; else D1="demo fails with change"; fi
git apply -R seed/patch.diff
if go test -vet=off -count=1 "$@" >/tmp/seed_demo_without.log 2>&1; then D2="demo passes without change"; else D2="DEMO-FAILS-WITHOUT-CHANGE(!)"; fi
rm -f "$DEST"
git apply seed/patch.diff
echo "$ID: $S1; $D1; $D2"
cd /verif
res=$(python3 tools/mutate.py $PROP $out/patch.diff --no-suite 2>&1 | grep "suite=")
echo "$res"
python3 - "$out" "$PROP" "$S1; $D1; $D2" "$res" "$*" <<'PY'
import json,sys
out,prop,verif,res,cmd=sys.argv[1:6]
m=json.load(open(out+'/meta.json'))
m['verified_by_me']=verif
m['demo_command']='go test -vet=off -count=1 '+cmd
m['check_result']=' '.join(res.split())
json.dump(m,open(out+'/meta.json','w'),indent=1)
PY
