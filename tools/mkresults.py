#!/usr/bin/env python3
"""Regenerates the generated tables of DESIGN.md (between <!-- BEGIN x --> / <!-- END x --> markers):
fixes (from known_findings.json), findings, mutants (from mutants/RESULTS.txt) and seeded changes
(from seeded/*/meta.json)."""
import glob, json, os, re
ROOT = os.path.dirname(os.path.dirname(os.path.abspath(__file__)))

def esc(s):
    return s.replace("|", "\\|").replace("\n", " ")

def fixes():
    k = json.load(open(os.path.join(ROOT, "known_findings.json")))
    rows = ["| Property | Commit | What failed on the pinned tree |", "|---|---|---|"]
    for e in k["fixed"]:
        m = re.match(r"fixed: property=(C\d+) (\S+) (.*)", e)
        rows.append("| %s | `%s` | %s |" % (m.group(1), m.group(2), esc(m.group(3))))
    return "\n".join(rows)

def findings():
    k = json.load(open(os.path.join(ROOT, "known_findings.json")))
    out = []
    for f in k["findings"]:
        out.append("**%s** (%s, class: %s). %s\n\n*Signatures owned:* %s.\n\n*Witness:* `%s`. *Why recorded, not repaired:* %s\n" % (
            f["id"], f["property"], f.get("class", "?"), f["what"], ", ".join("`%s`" % s for s in f["sigs"]), f["witness"], f.get("why_not_fixed", "")))
    return "\n".join(out)

def mutants():
    path = os.path.join(ROOT, "mutants", "RESULTS.txt")
    res = {}
    if os.path.exists(path):
        for l in open(path):
            m = re.match(r"(C\d+) (\S+\.diff)\s+suite=(\S+)\s+check=(\S+)\s+([\d.]+)s\s*(.*)", l)
            if m:
                res[(m.group(1), m.group(2))] = (m.group(3), m.group(4), m.group(5), m.group(6))
    suite = {}
    sp = os.path.join(ROOT, "mutants", "SUITE.txt")
    if os.path.exists(sp):
        for l in open(sp):
            a = l.split()
            if len(a) == 3:
                suite[(a[0], a[1])] = a[2]
    rows = ["| Check | Mutant | Suite | Quick check | s | Reported as |", "|---|---|---|---|---|---|"]
    for d in sorted(glob.glob(os.path.join(ROOT, "mutants", "c*"))):
        prop = os.path.basename(d).upper()
        for f in sorted(os.listdir(d)):
            if f.endswith(".diff"):
                r = res.get((prop, f), ("?", "not run", "", ""))
                sigs = sorted(set(re.findall(r"\[([^\]]*)\]", r[3])))
                rows.append("| %s | %s | %s | %s | %s | %s |" % (prop, f[:-5], suite.get((prop, f), r[0]), r[1], r[2], esc("; ".join(sigs))[:160]))
    return "\n".join(rows)

def seeded():
    rows = ["| Id | Breaks | What the change does | Needs, to manifest | Check result |", "|---|---|---|---|---|"]
    for d in sorted(glob.glob(os.path.join(ROOT, "seeded", "*"))):
        mp = os.path.join(d, "meta.json")
        if not os.path.exists(mp):
            continue
        m = json.load(open(mp))
        res = m.get("check_result", "")
        if m.get("check_result_first"):
            res = "first: " + m["check_result_first"] + " — now: " + res
        rows.append("| %s | %s | %s | %s | %s |" % (os.path.basename(d), m.get("property", "?"), esc(str(m.get("summary", "")))[:400], esc(str(m.get("needs", "")))[:400], esc(res)[:600]))
    return "\n".join(rows)

def main():
    p = os.path.join(ROOT, "DESIGN.md")
    s = open(p).read()
    for name, fn in (("FIXES", fixes), ("FINDINGS", findings), ("MUTANTS", mutants), ("SEEDED", seeded)):
        a, b = "<!-- BEGIN %s -->" % name, "<!-- END %s -->" % name
        if a in s and b in s:
            s = s[:s.index(a) + len(a)] + "\n" + fn() + "\n" + s[s.index(b):]
    open(p, "w").write(s)

if __name__ == "__main__":
    main()
