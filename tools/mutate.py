#!/usr/bin/env python3
"""Sensitivity runs: apply each mutants/<cNN>/*.diff (or a seeded/<id>/patch.diff) as a go -overlay
(never touching /repo), confirm the repository's own suite still passes on the mutant, then run the
quick check and expect exit 1.

  python3 tools/mutate.py C05                 all mutants of C05
  python3 tools/mutate.py C05 path/to.diff    one patch against one check
  options: --no-suite (skip the repository suite), --tier thorough
"""
import json, os, re, shutil, subprocess, sys, tempfile, time
ROOT = os.path.dirname(os.path.dirname(os.path.abspath(__file__)))
ENV = dict(os.environ, GOFLAGS="-mod=mod", GOPROXY="off", GOSUMDB="off", GOTOOLCHAIN="local")

def make_overlay(diff, tmp):
    files = re.findall(r"^\+\+\+ b/(\S+)", open(diff).read(), re.M)
    for f in files:
        dst = os.path.join(tmp, f)
        os.makedirs(os.path.dirname(dst), exist_ok=True)
        if os.path.exists(os.path.join("/repo", f)):
            shutil.copy(os.path.join("/repo", f), dst)
    r = subprocess.run(["patch", "-p1", "-s", "-d", tmp, "-i", os.path.abspath(diff)], capture_output=True, text=True)
    if r.returncode != 0:
        raise RuntimeError("patch failed for %s: %s%s" % (diff, r.stdout, r.stderr))
    ov = {"Replace": {os.path.join("/repo", f): os.path.join(tmp, f) for f in files}}
    p = os.path.join(tmp, "overlay.json")
    json.dump(ov, open(p, "w"))
    return p

def main():
    args = [a for a in sys.argv[1:] if not a.startswith("--")]
    opts = [a for a in sys.argv[1:] if a.startswith("--")]
    prop = args[0].upper()
    if len(args) > 1:
        diffs = args[1:]
    else:
        d = os.path.join(ROOT, "mutants", prop.lower())
        diffs = sorted(os.path.join(d, f) for f in os.listdir(d) if f.endswith(".diff"))
    tier = "thorough" if "--thorough" in opts else "quick"
    results = []
    for diff in diffs:
        tmp = tempfile.mkdtemp(prefix="verif-mut-")
        try:
            try:
                ov = make_overlay(diff, tmp)
            except RuntimeError as ex:
                print("%-50s DOES-NOT-APPLY %s" % (os.path.basename(diff), str(ex)[:200]), flush=True)
                results.append((diff, "n/a", "does-not-apply"))
                continue
            suite = "skipped"
            if "--no-suite" not in opts:
                r = subprocess.run(["go", "test", "-vet=off", "-count=1", "-overlay", ov, "./..."], cwd="/repo",
                                   env=dict(os.environ, GOPROXY="off", GOSUMDB="off", GOTOOLCHAIN="local", GOFLAGS="-mod=mod"),
                                   capture_output=True, text=True)
                suite = "passes" if r.returncode == 0 else "FAILS"
                if r.returncode != 0:
                    print(r.stdout[-1500:])
            t0 = time.time()
            r = subprocess.run(["python3", os.path.join(ROOT, "check.py"), prop, "--tier", tier, "--overlay", ov, "--no-evidence"],
                               cwd=ROOT, env=ENV, capture_output=True, text=True)
            dt = time.time() - t0
            verdict = {0: "MISSED", 1: "caught", 2: "inconclusive"}.get(r.returncode, "rc=%d" % r.returncode)
            sigs = sorted(set(re.findall(r"^violation in (\S+ \[[^\]]*\])", r.stdout, re.M)))
            print("%-50s suite=%-7s check=%-12s %5.1fs %s" % (os.path.basename(diff), suite, verdict, dt, "; ".join(sigs)[:300]), flush=True)
            if verdict != "caught" and "--verbose" in opts:
                print(r.stdout[-3000:])
            results.append((diff, suite, verdict))
        finally:
            shutil.rmtree(tmp, ignore_errors=True)
    subprocess.run(["git", "-C", "/repo", "status", "--short"])
    bad = [r for r in results if r[2] != "caught"]
    sys.exit(1 if bad else 0)

if __name__ == "__main__":
    main()
