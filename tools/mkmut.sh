#!/bin/bash
# usage: tools/mkmut.sh cNN/name.diff file 'sed expression' [file2 'sed2' ...]
# Creates a mutant patch under /verif/mutants from sed edits of /repo files; /repo is left untouched.
set -e
out=/verif/mutants/$1; shift
mkdir -p "$(dirname "$out")"
cd /repo
if [ -n "$(git status --porcelain)" ]; then echo "/repo not clean"; exit 1; fi
while [ $# -gt 0 ]; do sed -i "$2" "$1"; shift 2; done
git diff > "$out"
git checkout -- .
if [ ! -s "$out" ]; then echo "EMPTY mutant $out"; rm -f "$out"; exit 1; fi
grep -c '^[-+][^-+]' "$out" | sed "s|^|$out changed lines: |"
