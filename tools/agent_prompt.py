#!/usr/bin/env python3
"""Prints the prompt for an independent agent that is to write a breaking change for one property.
The agent gets the text of the property and a scratch worktree, nothing from /verif.

  python3 tools/agent_prompt.py C07 [A|B|C|D|E|F|G] [worktree-suffix]
"""
import sys, json

ANGLES = {
    "A": "state that is kept between calls (a cache, a pool, a package-level variable, a lazily computed field): the first call is right, a later call after some other call or after an edit is wrong",
    "B": "an unusual but legal input (a rare spelling, an extreme but allowed size or number, an uncommon combination of options) that ordinary data does not contain",
    "C": "a code path far from the obvious one (a helper that several features share, a second entry point, a conversion that only one caller uses), so that the obvious route stays right",
    "D": "concurrency or an injected fault (several goroutines at the same moment on fresh values, a reader or writer that fails at a particular point, a worker that fails while others run)",
    "E": "two cooperating sites that each look fine alone: change two places (for instance a producer and a consumer, an encoder and a decoder, a cache key and its invalidation) so that each change is defensible by itself and only their combination breaks the property",
    "F": "scale: the change is right for small values and wrong only for many items, deep nesting, long strings, large numbers or many repetitions (a fixed-size buffer, a threshold that switches algorithms, an integer width, a fast path for short inputs)",
    "G": "a less used public entry point, option or command-line flag that the property still covers, while the main entry point stays right",
}

def main():
    pid = sys.argv[1].upper()
    angle = sys.argv[2].upper() if len(sys.argv) > 2 else ""
    low = sys.argv[3] if len(sys.argv) > 3 else pid.lower()
    props = {json.loads(l)["id"]: json.loads(l) for l in open("/verif/properties.jsonl")}
    x = props[pid]
    hint = ""
    if angle in ANGLES:
        hint = "\n\nFor this task prefer a change of this kind: " + ANGLES[angle] + ". (If that is impossible for this property, any change that needs something specific to manifest is fine.)"
    print(f"""You are working in a scratch git worktree of the Go repository elliotchance/gedcom (module github.com/elliotchance/gedcom/v39) at /tmp/wt-{low}. The sandbox has NO network. In every shell call first run: `export GOFLAGS=-mod=mod GOPROXY=off GOSUMDB=off GOTOOLCHAIN=local`. Work ONLY inside /tmp/wt-{low} (never touch /repo or /verif, never read /verif).

Goal: produce ONE realistic change to the library source (not to tests) that BREAKS the semantic property below, while the code still compiles and the existing test suite (`cd /tmp/wt-{low} && go test -vet=off -count=1 ./...`) still passes completely. The change should look like a plausible regression or refactoring slip, and it must need something specific to manifest (an unusual input, a particular option combination, a particular interleaving, a crash or fault at a particular point, a multi-step sequence of operations, or two cooperating sites that each look fine alone) - NOT something that ordinary use would expose at once.{hint}

Property {pid}: {x['title']}
Statement: {x['statement']}
Quantified over: {x['quantifier']['text']}

Deliverables, all under /tmp/wt-{low}/seed/ :
1. patch.diff - `git diff` of the source change only (must apply with `git apply` to a clean checkout of the same commit; do not include the seed/ directory in it).
2. A demonstration: a Go test file (e.g. seed/demo_test.go, to be copied into the right package directory to run) that FAILS with the change and PASSES without it. Put the exact commands in seed/README.md. The demonstration must be deterministic enough to fail on (nearly) every run with the change.
3. meta.json with fields: property ("{pid}"), summary (one sentence: what the change does), needs (what specific input/sequence/schedule is needed for it to manifest), files_changed (list).

You must verify yourself and report the evidence: (a) the full suite passes WITH the change; (b) the demo FAILS with the change; (c) the demo PASSES on the original code (use `git stash` or `git apply -R`). Leave the worktree with the source change applied and the seed/ directory present (do not commit). Remove any demo file you copied into package directories when done, so that only seed/ and the source change remain. Final answer: a short report with the summary, what is needed to manifest, the package directory the demo must be copied to and the `go test -run` pattern for it, and the verification results.""")

if __name__ == "__main__":
    main()
