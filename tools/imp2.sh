#!/bin/bash
# usage: tools/imp2.sh <PROP> <worktree-suffix> <seeded-id> <run-pattern> [pkgdir]
# imp.sh, then the same change against the checks as committed in /tmp/verif-head (a worktree of /verif
# made at the start of a round), so that "would the check have caught it before today's edits" is measured.
/verif/tools/imp.sh "$@" 2>&1 | tail -n 3 | cut -c1-700
if [ -d /tmp/verif-head ]; then
  echo "as-committed-at-start-of-round:"
  (cd /tmp/verif-head && GOFLAGS=-mod=mod GOPROXY=off GOSUMDB=off GOTOOLCHAIN=local python3 tools/mutate.py $1 /verif/seeded/$3/patch.diff --no-suite 2>&1 | tail -n 1 | cut -c1-500)
fi
rm -f /verif/seeded/$3/go.mod
