#!/bin/bash
# Runs the repository's own suite (guard off) and prints a single verdict line.
cd /repo && out=$(go build ./... 2>&1 && go test -vet=off -count=1 ./... 2>&1); rc=$?
if [ $rc -eq 0 ] && ! echo "$out" | grep -q "^FAIL\|^--- FAIL"; then echo "SUITE PASS ($(echo "$out" | grep -c '^ok') packages)"; else echo "SUITE FAIL"; echo "$out" | grep -B2 -A25 "^--- FAIL\|FAIL\|cannot\|undefined" | head -60; fi
