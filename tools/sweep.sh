#!/bin/bash
# usage: tools/sweep.sh C07 C08 ...   - runs every mutant of the named checks (quick tier, overlay) and replaces
# their lines in mutants/RESULTS.txt (the suite verdicts are in mutants/SUITE.txt, from tools/mutsuite.py)
cd /verif
export GOFLAGS=-mod=mod GOPROXY=off GOSUMDB=off GOTOOLCHAIN=local
for p in "$@"; do
  out=$(python3 tools/mutate.py $p --no-suite 2>&1 | grep "suite=")
  n=$(echo "$out" | grep -c "suite=")
  if [ "$n" -gt 0 ]; then
    grep -v "^$p " mutants/RESULTS.txt > /tmp/results.$$; echo "$out" | sed "s/^/$p /" >> /tmp/results.$$
    sort -s -k1,1 /tmp/results.$$ > mutants/RESULTS.txt; rm -f /tmp/results.$$
  fi
  echo "$p: $n mutants, missed: $(echo "$out" | grep -c MISSED)"
  echo "$out" | grep MISSED
done
