#!/bin/bash
# usage: tools/imp.sh <PROP> <worktree-suffix> <seeded-id> <run-pattern> [pkgdir]
# wrapper around seed_import.sh for the worktree /tmp/wt-<suffix>; removes the worktree afterwards.
set -u
PROP=$1; SUF=$2; ID=$3; PAT=$4; PKG=${5:-.}
WT=/tmp/wt-$SUF
[ -f $WT/seed/patch.diff ] || { echo "no seed/patch.diff in $WT"; exit 2; }
/verif/tools/seed_import.sh $PROP $WT $ID $WT/$PKG/zz_seed_demo_test.go -run "$PAT" ./$PKG
git -C /repo worktree remove --force $WT
