#!/usr/bin/env python3
"""Turn the violations a mutant provokes into regression replays:
  python3 tools/harvest.py C19 mutants/c19/x.diff name [sig-substring]
runs the quick check on the mutant (overlay) and copies the smallest replay of the first sub-check
(optionally: whose signature contains sig-substring) to corpus/cNN/<name>.json."""
import os, re, shutil, subprocess, sys, tempfile
sys.path.insert(0, os.path.dirname(os.path.abspath(__file__)))
import mutate
ROOT = mutate.ROOT
prop, diff, name = sys.argv[1].upper(), sys.argv[2], sys.argv[3]
want = sys.argv[4] if len(sys.argv) > 4 else ""
tmp = tempfile.mkdtemp(prefix="verif-mut-")
try:
    ov = mutate.make_overlay(diff, tmp)
    shutil.rmtree(os.path.join(ROOT, "replays", prop.lower()), ignore_errors=True)
    r = subprocess.run(["python3", os.path.join(ROOT, "check.py"), prop, "--overlay", ov, "--no-evidence"], cwd=ROOT, env=mutate.ENV, capture_output=True, text=True)
    lines = r.stdout.splitlines()
    best = None
    for i, l in enumerate(lines):
        m = re.match(r"^violation in (\S+) \[([^\]]*)\]", l)
        if m and m.group(1) != "replay" and want in m.group(2):
            for l2 in lines[i:]:
                m2 = re.match(r"^VIOLATION property=\S+ replay=(\S+)", l2)
                if m2:
                    p = m2.group(1)
                    if os.path.exists(p) and (best is None or os.path.getsize(p) < os.path.getsize(best[0])):
                        best = (p, m.group(2))
                    break
    if not best:
        print("nothing harvested (exit %d)" % r.returncode); sys.exit(1)
    dst = os.path.join(ROOT, "corpus", prop.lower(), name + ".json")
    os.makedirs(os.path.dirname(dst), exist_ok=True)
    shutil.copy(best[0], dst)
    print("harvested %s [%s] %d bytes" % (dst, best[1], os.path.getsize(dst)))
finally:
    shutil.rmtree(tmp, ignore_errors=True)
