module verif

go 1.23

require (
	github.com/elliotchance/gedcom/v39 v39.0.0
	pgregory.net/rapid v1.3.0
)

require golang.org/x/text v0.14.0 // indirect

replace github.com/elliotchance/gedcom/v39 => /repo
