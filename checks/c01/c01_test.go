// C01 - encode then decode returns the same document (DESIGN.md 6.1).
package c01

import (
	"bytes"
	"encoding/json"
	"fmt"
	"io"
	"reflect"
	"strings"
	"testing"
	"testing/iotest"
	"unicode/utf8"

	"github.com/elliotchance/gedcom/v39"
	"pgregory.net/rapid"

	"verif/internal/gen"
	"verif/internal/harness"
)

func TestMain(m *testing.M) { harness.Main(m, "C01") }

type rtCase struct {
	Forest *gen.ForestBP `json:"forest"`
	// Route "api" builds through constructors; "decode" first decodes the text
	// rendered by the harness's own writer.
	Route string `json:"route"`
}

func safely(what string, fn func()) (f *harness.Failure) {
	defer func() {
		if p := recover(); p != nil {
			f = harness.Failf("panic-"+what, "panic in %s: %v", what, p)
		}
	}()
	fn()
	return nil
}

func compareNodes(path string, a, b gedcom.Node) *harness.Failure {
	if a.Tag().Tag() != b.Tag().Tag() || a.Tag() != b.Tag() {
		return harness.Failf("tag-differs", "%s: tag %q (%+v) became %q (%+v)", path, a.Tag().Tag(), a.Tag(), b.Tag().Tag(), b.Tag())
	}
	if a.Value() != b.Value() {
		return harness.Failf("value-differs", "%s: value %q became %q", path, a.Value(), b.Value())
	}
	if a.Pointer() != b.Pointer() {
		return harness.Failf("pointer-differs", "%s: pointer %q became %q", path, a.Pointer(), b.Pointer())
	}
	if reflect.TypeOf(a) != reflect.TypeOf(b) {
		return harness.Failf("kind-differs", "%s: node kind %T became %T", path, a, b)
	}
	ak, bk := a.Nodes(), b.Nodes()
	if len(ak) != len(bk) {
		return harness.Failf("children-differ", "%s (%s): %d children became %d", path, a.Tag().Tag(), len(ak), len(bk))
	}
	for i := range ak {
		if f := compareNodes(fmt.Sprintf("%s/%d", path, i), ak[i], bk[i]); f != nil {
			return f
		}
	}
	return nil
}

func roundTrip(doc *gedcom.Document) *harness.Failure {
	var text string
	if f := safely("encode", func() { text = doc.String() }); f != nil {
		return f
	}
	var buf bytes.Buffer
	var encErr error
	if f := safely("encoder", func() { encErr = gedcom.NewEncoder(&buf, doc).Encode() }); f != nil {
		return f
	}
	if encErr != nil {
		return harness.Failf("encoder-error", "Encoder.Encode: %v", encErr)
	}
	if buf.String() != text {
		return harness.Failf("encoder-vs-string", "Encoder.Encode and Document.String differ: %q vs %q", buf.String(), text)
	}
	var doc2 *gedcom.Document
	var err error
	if f := safely("decode", func() { doc2, err = gedcom.NewDocumentFromString(text) }); f != nil {
		f.Msg += fmt.Sprintf(" (text %q)", trunc(text))
		return f
	}
	if err != nil {
		return harness.Failf("decode-rejects-encoder-output", "decoder rejects the encoder's own output: %v (text %q)", err, trunc(text))
	}
	if doc2.HasBOM != doc.HasBOM {
		return harness.Failf("bom-differs", "HasBOM %v became %v", doc.HasBOM, doc2.HasBOM)
	}
	a, b := doc.Nodes(), doc2.Nodes()
	if len(a) != len(b) {
		return harness.Failf("roots-differ", "%d root nodes became %d (text %q)", len(a), len(b), trunc(text))
	}
	for i := range a {
		if f := compareNodes(fmt.Sprintf("/%d", i), a[i], b[i]); f != nil {
			f.Msg += fmt.Sprintf(" (text %q)", trunc(text))
			return f
		}
	}
	// the same text through the other entry points of the decoder: a Decoder on a reader, and on
	// a reader that hands over one byte at a time (how the bytes arrive is not part of the text)
	for _, route := range []struct {
		name string
		r    io.Reader
	}{{"Decoder", strings.NewReader(text)}, {"Decoder/one-byte-reader", iotest.OneByteReader(strings.NewReader(text))}} {
		var doc3 *gedcom.Document
		if f := safely("decode", func() { doc3, err = gedcom.NewDecoder(route.r).Decode() }); f != nil {
			f.Msg += fmt.Sprintf(" (%s, text %q)", route.name, trunc(text))
			return f
		}
		if err != nil {
			return harness.Failf("decode-rejects-encoder-output", "%s rejects the encoder's own output: %v (text %q)", route.name, err, trunc(text))
		}
		if doc3.HasBOM != doc.HasBOM {
			return harness.Failf("bom-differs", "%s: HasBOM %v became %v", route.name, doc.HasBOM, doc3.HasBOM)
		}
		c := doc3.Nodes()
		if len(a) != len(c) {
			return harness.Failf("roots-differ", "%s: %d root nodes became %d (text %q)", route.name, len(a), len(c), trunc(text))
		}
		for i := range a {
			if f := compareNodes(fmt.Sprintf("/%d", i), a[i], c[i]); f != nil {
				f.Msg += fmt.Sprintf(" (%s, text %q)", route.name, trunc(text))
				return f
			}
		}
	}
	// "the text the encoder writes": when Encode reports success, what the writer took is the
	// whole text - also when the writer refused one of the writes (once, or from then on)
	if f := failingWriters(doc, text); f != nil {
		return f
	}
	// encoding is repeatable, decoding the text did not touch the source, and the decoded
	// document encodes to the same text
	var again, second string
	if f := safely("encode", func() { again, second = doc.String(), doc2.String() }); f != nil {
		return f
	}
	if again != text {
		return harness.Failf("encoding-not-repeatable", "Document.String gives %q and then %q", trunc(text), trunc(again))
	}
	if second != text {
		return harness.Failf("second-generation-differs", "the decoded document encodes as %q, the original as %q", trunc(second), trunc(text))
	}
	return nil
}

// faultyWriter refuses the k-th Write (counted from 0), and every later one when persistent.
type faultyWriter struct {
	k, n       int
	persistent bool
	taken      bytes.Buffer
}

func (w *faultyWriter) Write(p []byte) (int, error) {
	i := w.n
	w.n++
	if i == w.k || (w.persistent && i > w.k) {
		return 0, fmt.Errorf("write %d refused", i)
	}
	return w.taken.Write(p)
}

func failingWriters(doc *gedcom.Document, text string) *harness.Failure {
	count := &faultyWriter{k: -1}
	if err := gedcom.NewEncoder(count, doc).Encode(); err != nil || count.n == 0 {
		return nil
	}
	n := count.n
	seen := map[int]bool{}
	for _, k := range []int{0, n / 2, n - 1, len(text) % n} {
		if k < 0 || k >= n || seen[k] {
			continue
		}
		seen[k] = true
		for _, persistent := range []bool{false, true} {
			w := &faultyWriter{k: k, persistent: persistent}
			var err error
			if f := safely("encoder", func() { err = gedcom.NewEncoder(w, doc).Encode() }); f != nil {
				return f
			}
			if err == nil && w.taken.String() != text {
				mode := "once"
				if persistent {
					mode = "from then on"
				}
				return harness.Failf("success-reported-for-partial-text", "the writer refused write %d of %d (%s), Encode reported success, and the writer holds %q of the text %q", k, n, mode, trunc(w.taken.String()), trunc(text))
			}
		}
	}
	return nil
}

func trunc(s string) string {
	if len(s) > 300 {
		return s[:300] + "..."
	}
	return s
}

func check(c rtCase) *harness.Failure {
	var doc *gedcom.Document
	switch c.Route {
	case "decode":
		text := c.Forest.Render()
		var err error
		if f := safely("decode-of-rendered", func() { doc, err = gedcom.NewDocumentFromString(text) }); f != nil {
			return f
		}
		if err != nil {
			return harness.Failf("decode-rejects-valid-text", "decoder rejects text that is valid by construction: %v (text %q)", err, trunc(text))
		}
	default:
		if f := safely("build", func() { doc = c.Forest.Build().Doc }); f != nil {
			return f
		}
	}
	if f := roundTrip(doc); f != nil {
		return f
	}
	// the same document object after it was encoded: the BOM flag assigned, and values
	// replaced in place through the setters that do that (SetSex on an existing SEX line,
	// SetHusbandPointer/SetWifePointer on existing lines) - still a document built through
	// the public API, and what was encoded before must not show
	var f2 *harness.Failure
	// an Encoder that was created before the edits below writes what the document holds
	// when Encode is called
	var early bytes.Buffer
	earlyEncoder := gedcom.NewEncoder(&early, doc)
	if f := safely("in-place-edit", func() {
		doc.HasBOM = !doc.HasBOM
		doc.AddNode(gedcom.NewNode(gedcom.TagFromString("_LATE"), "a root record added after the encoder was created", ""))
		for k, ind := range doc.Individuals() {
			ind.SetSex([]string{"F", "M", "U"}[k%3])
		}
		for _, fam := range doc.Families() {
			if !gedcom.IsNil(fam.Husband()) {
				fam.SetHusbandPointer("ZZH")
			}
			if !gedcom.IsNil(fam.Wife()) {
				fam.SetWifePointer("ZZW")
			}
		}
		f2 = roundTrip(doc)
		if f2 == nil {
			if err := earlyEncoder.Encode(); err != nil {
				f2 = harness.Failf("encoder-error", "Encoder.Encode: %v", err)
			} else if early.String() != doc.String() {
				f2 = harness.Failf("encoder-created-earlier-is-stale", "an Encoder created before the document was edited writes %q, the document is %q", trunc(early.String()), trunc(doc.String()))
			}
		}
	}); f != nil {
		return f
	}
	if f2 != nil {
		f2.Sig = "after-in-place-edit:" + f2.Sig
		f2.Msg = "after the document was encoded once, its BOM flag assigned and values replaced in place: " + f2.Msg
	}
	return f2
}

func classes(f *gen.ForestBP) (cls []string, nontrivial bool) {
	depth := f.Depth()
	if depth >= 1 {
		nontrivial = true
	}
	if depth >= 10 {
		cls = append(cls, "depth>=10")
	}
	if depth >= 50 {
		cls = append(cls, "depth>=50")
	}
	if f.BOM && depth >= 1 {
		cls = append(cls, "bom+nesting")
	}
	seen := map[string]bool{}
	f.Walk(func(n *gen.NodeBP, d int) {
		add := func(c string) {
			if !seen[c] {
				seen[c] = true
				cls = append(cls, c)
			}
		}
		if gen.IsRecord(n.Tag) || gen.IsRole(n.Tag) {
			add("kind:" + n.Tag)
			nontrivial = true
			if d > 0 && gen.IsRecord(n.Tag) {
				add("nested-record")
			}
		}
		for _, s := range gen.SpecialisedTags {
			if s == n.Tag {
				add("kind:" + n.Tag)
				nontrivial = true
			}
		}
		if n.Tag != "" && n.Tag[0] >= '0' && n.Tag[0] <= '9' {
			add("numeric-tag")
		}
		if len(n.Value) > 0 && (n.Value[0] == '@' || (n.Value[0] >= '0' && n.Value[0] <= '9')) {
			add("pointer-or-level-like-value")
			nontrivial = true
		}
		if d > 0 && n.Pointer != "" {
			add("nested-pointer")
		}
		if !utf8.ValidString(string(n.Value)) {
			add("non-utf8-value")
		}
	})
	return
}

func TestCheckRandom(t *testing.T) {
	for i, route := range []string{"api", "decode"} {
		route := route
		s := harness.NewSub("random-"+route,
			"random G1 forests (<= 60 nodes, sometimes <= 300; forced chains up to depth 99; all registered + custom tags, records, role nodes inside/after families, nested pointers, hostile values), route="+route+"; non-trivial = depth >= 1 or a specialised kind or a pointer/level-like value; distinct by hash of the blueprint")
		s.Rapid(t, harness.Share(harness.Pick(100000, 2000000)), 10+i, func(rt *rapid.T) {
			max := 60
			if rapid.IntRange(0, 19).Draw(rt, "big") == 0 {
				max = 300
			}
			f := gen.Forest(gen.ForestOpts{MaxNodes: max, MaxSpine: 99, Records: true, Roles: true, Nested: true}).Draw(rt, "forest")
			c := rtCase{Forest: f, Route: route}
			cls, nt := classes(f)
			s.Eval(harness.JSON(c), nt, cls...)
			s.MaybeSample(c)
			if fl := check(c); fl != nil && s.Report(c, fl) {
				rt.Fatalf("%s", fl.Msg)
			}
		})
	}
}

// ---- exhaustive enumeration over a reduced alphabet ------------------------

var exTags = []string{"ZZZ", "NOTE", "DATE", "10"}
var exValues = []string{"", "word", "@I1@", "1 NAME x"}
var exPointers = []string{"", "P1"}

// shapes(n) enumerates all ordered forests with n nodes as parent vectors in
// document (pre-)order: parent[i] < i or -1, and the parent of node i must be on
// the right-most path after node i-1.
func shapes(n int) [][]int {
	var out [][]int
	var rec func(par []int)
	rec = func(par []int) {
		if len(par) == n {
			out = append(out, append([]int(nil), par...))
			return
		}
		i := len(par)
		// candidates: -1 (new root) and every node on the path from i-1 to its root
		cands := []int{-1}
		for p := i - 1; p >= 0; p = par[p] {
			cands = append(cands, p)
			if par[p] < 0 {
				break
			}
		}
		for _, c := range cands {
			rec(append(par, c))
		}
	}
	if n == 0 {
		return [][]int{{}}
	}
	rec(nil)
	return out
}

func TestCheckExhaustive(t *testing.T) {
	maxN := harness.Pick(3, 4)
	s := harness.NewSub("exhaustive-small-forests",
		fmt.Sprintf("every ordered forest with <= %d nodes over 32 labels (tags ZZZ/NOTE/DATE/10 x values ''/word/@I1@/'1 NAME x' x pointers ''/P1) x HasBOM, built top-down through the API; all distinct by construction, non-trivial = at least 2 nodes", maxN))
	s.SetExhaustive(true)
	nl := len(exTags) * len(exValues) * len(exPointers)
	shard, ns := harness.Shard(), harness.NShards()
	idx := 0
	for n := 0; n <= maxN; n++ {
		for _, par := range shapes(n) {
			total := 1
			for i := 0; i < n; i++ {
				total *= nl
			}
			for code := 0; code < total; code++ {
				idx++
				if idx%ns != shard {
					continue
				}
				nodes := make([]*gen.NodeBP, n)
				c := code
				for i := 0; i < n; i++ {
					l := c % nl
					c /= nl
					nodes[i] = &gen.NodeBP{Tag: exTags[l%4], Value: gen.Str(exValues[(l/4)%4]), Pointer: gen.Str(exPointers[l/16])}
				}
				f := &gen.ForestBP{TopDown: true}
				for i := 0; i < n; i++ {
					if par[i] < 0 {
						f.Roots = append(f.Roots, nodes[i])
					} else {
						nodes[par[i]].Kids = append(nodes[par[i]].Kids, nodes[i])
					}
				}
				for _, bom := range []bool{false, true} {
					f.BOM = bom
					cse := rtCase{Forest: f, Route: "api"}
					nt := int64(0)
					if n >= 2 {
						nt = 1
					}
					s.EvalN(1, nt, fmt.Sprintf("nodes=%d", n))
					if code%500000 == 77 && !bom {
						s.Sample(cse)
					}
					if fl := check(cse); fl != nil {
						s.Report(cse, fl)
					}
				}
			}
		}
	}
}

func init() {
	harness.Assume("legal parts as the property defines them: tags of ASCII letters, digits and underscore; values without CR/LF and without surrounding whitespace (strings.TrimSpace); pointers without '@' and line breaks",
		"role nodes (HUSB/WIFE/CHIL) only inside or after a family in document order, as the quantifier says",
		"the built document is compared with its own decode, never with the blueprint, so constructor quirks (SEX dropping children) cannot alarm",
		"every case is decoded three ways (NewDocumentFromString, a Decoder on a reader, a Decoder on a reader that hands over one byte at a time); encoding twice must give the same text and the decoded document must encode to that text again")
	replay := func(raw json.RawMessage) *harness.Failure {
		var c rtCase
		if err := json.Unmarshal(raw, &c); err != nil {
			return harness.Failf("bad-replay", "%v", err)
		}
		return check(c)
	}
	harness.RegisterReplay("random-api", replay)
	harness.RegisterReplay("random-decode", replay)
	harness.RegisterReplay("exhaustive-small-forests", replay)
}

func TestReplay(t *testing.T) { harness.RunReplay(t) }
