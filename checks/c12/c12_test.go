// C12 - similarity scores are bounded, symmetric and maximal on identity (DESIGN.md 6.12).
package c12

import (
	"encoding/json"
	"fmt"
	"math"
	"sync"
	"testing"
	"unicode"
	"unicode/utf8"

	"github.com/elliotchance/gedcom/v39"
	"pgregory.net/rapid"

	"verif/internal/gen"
	"verif/internal/harness"
)

func TestMain(m *testing.M) { harness.Main(m, "C12") }

type optsBP struct {
	MaxYears    float64 `json:"max_years"`
	MinSim      float64 `json:"min_sim"`
	WInd        float64 `json:"w_ind"`
	WPar        float64 `json:"w_par"`
	WSpo        float64 `json:"w_spo"`
	WChi        float64 `json:"w_chi"`
	NameToDate  float64 `json:"name_to_date"`
	JaroBoost   float64 `json:"jaro_boost"`
	JaroPrefix  int     `json:"jaro_prefix"`
	UseDefaults bool    `json:"defaults,omitempty"`
}

func (o optsBP) options() gedcom.SimilarityOptions {
	so := gedcom.NewSimilarityOptions()
	if o.UseDefaults {
		return so
	}
	so.MaxYears, so.MinimumSimilarity = o.MaxYears, o.MinSim
	so.IndividualWeight, so.ParentsWeight, so.SpousesWeight, so.ChildrenWeight = o.WInd, o.WPar, o.WSpo, o.WChi
	so.NameToDateRatio, so.JaroBoostThreshold, so.JaroPrefixSize = o.NameToDate, o.JaroBoost, o.JaroPrefix
	return so
}

func genOpts(t *rapid.T) optsBP {
	if rapid.Bool().Draw(t, "defaults") {
		return optsBP{UseDefaults: true}
	}
	// four weights summing to 1: three cut points in [0,1] on a grid
	cuts := []int{rapid.IntRange(0, 100).Draw(t, "c1"), rapid.IntRange(0, 100).Draw(t, "c2"), rapid.IntRange(0, 100).Draw(t, "c3")}
	for i := 0; i < 3; i++ {
		for j := i + 1; j < 3; j++ {
			if cuts[j] < cuts[i] {
				cuts[i], cuts[j] = cuts[j], cuts[i]
			}
		}
	}
	w := []float64{float64(cuts[0]) / 100, float64(cuts[1]-cuts[0]) / 100, float64(cuts[2]-cuts[1]) / 100, 0}
	w[3] = 1 - w[0] - w[1] - w[2]
	if w[3] < 0 {
		w[3] = 0
	}
	return optsBP{
		MaxYears:   rapid.SampledFrom([]float64{0.5, 1, 3, 3, 10, 50}).Draw(t, "maxyears"),
		MinSim:     rapid.SampledFrom([]float64{0, 0.3, 0.5, 0.733, 0.9, 1}).Draw(t, "minsim"),
		WInd:       w[0], WPar: w[1], WSpo: w[2], WChi: w[3],
		NameToDate: float64(rapid.IntRange(0, 10).Draw(t, "ratio")) / 10,
		JaroBoost:  float64(rapid.IntRange(0, 10).Draw(t, "boost")) / 10,
		JaroPrefix: rapid.IntRange(0, 10).Draw(t, "prefix"),
	}
}

func bad(x float64) bool { return math.IsNaN(x) || x < 0 || x > 1 }

// ---------------------------------------------------------------------------
// strings

type strCase struct {
	A      gen.Str `json:"a"`
	B      gen.Str `json:"b"`
	Boost  float64 `json:"boost"`
	Prefix int     `json:"prefix"`
}

func checkStrings(c strCase) *harness.Failure {
	a, b := string(c.A), string(c.B)
	for _, fn := range []struct {
		name string
		f    func(a, b string, boost float64, prefix int) float64
	}{{"JaroWinkler", gedcom.JaroWinkler}, {"StringSimilarity", gedcom.StringSimilarity}} {
		ab, ba := fn.f(a, b, c.Boost, c.Prefix), fn.f(b, a, c.Boost, c.Prefix)
		if bad(ab) || bad(ba) {
			return harness.Failf("string-out-of-range", "%s(%q,%q)=%v, swapped %v", fn.name, a, b, ab, ba)
		}
		if ab != ba {
			return harness.Failf("string-asymmetric", "%s(%q,%q)=%v but swapped %v (boost %v, prefix %d)", fn.name, a, b, ab, ba, c.Boost, c.Prefix)
		}
	}
	if a != "" {
		if v := gedcom.JaroWinkler(a, a, c.Boost, c.Prefix); v != 1 {
			return harness.Failf("string-identity", "JaroWinkler(%q,%q)=%v, want 1", a, a, v)
		}
	}
	// identical names that carry at least one letter or digit (in any script)
	if hasLetterOrDigit(a) {
		if v := gedcom.StringSimilarity(a, a, c.Boost, c.Prefix); v != 1 {
			return harness.Failf("name-identity", "StringSimilarity(%q,%q)=%v, want 1", a, a, v)
		}
	}
	return nil
}

func hasLetterOrDigit(s string) bool {
	for _, r := range s {
		if r != utf8.RuneError && (unicode.IsLetter(r) || unicode.IsDigit(r)) {
			return true
		}
	}
	return false
}

func allStrings(alpha string, maxLen int) []string {
	out := []string{""}
	prev := []string{""}
	for l := 1; l <= maxLen; l++ {
		var next []string
		for _, p := range prev {
			for _, ch := range alpha {
				next = append(next, p+string(ch))
			}
		}
		out = append(out, next...)
		prev = next
	}
	return out
}

func TestCheckStringsExhaustive(t *testing.T) {
	s := harness.NewSub("string-pairs-exhaustive",
		fmt.Sprintf("every ordered pair of strings over {a,b} up to length %d and over {a,b,c} up to length %d, default Jaro-Winkler parameters: range, symmetry, identity; distinct by construction, non-trivial = the two strings differ", harness.Pick(9, 10), harness.Pick(5, 6)))
	s.SetExhaustive(true)
	shard, ns := harness.Shard(), harness.NShards()
	for _, set := range [][]string{allStrings("ab", harness.Pick(9, 10)), allStrings("abc", harness.Pick(5, 6))} {
		for i, a := range set {
			if i%ns != shard {
				continue
			}
			var n, nt int64
			for j := i; j < len(set); j++ {
				c := strCase{A: gen.Str(a), B: gen.Str(set[j]), Boost: gedcom.DefaultJaroWinklerBoostThreshold, Prefix: gedcom.DefaultJaroWinklerPrefixSize}
				if fl := checkStrings(c); fl != nil {
					s.Report(c, fl)
				}
				n++
				if i != j {
					nt++
				}
			}
			s.EvalN(n, nt)
			if i%401 == 17 {
				s.Sample(strCase{A: gen.Str(a), B: gen.Str(set[(i*7)%len(set)]), Prefix: 8})
			}
		}
	}
}

func mutateName(t *rapid.T, s string) string {
	b := []byte(s)
	n := rapid.IntRange(0, 3).Draw(t, "nmut")
	for i := 0; i < n && len(b) > 0; i++ {
		p := rapid.IntRange(0, len(b)-1).Draw(t, "pos")
		switch rapid.IntRange(0, 3).Draw(t, "op") {
		case 0:
			b = append(b[:p], b[p+1:]...)
		case 1:
			b[p] = rapid.SampledFrom([]byte("aeiou -'.z9")).Draw(t, "ch")
		case 2:
			if p+1 < len(b) {
				b[p], b[p+1] = b[p+1], b[p]
			}
		default:
			b = append(b[:p], append([]byte{rapid.SampledFrom([]byte("aeiou -'.z9")).Draw(t, "ins")}, b[p:]...)...)
		}
	}
	return string(b)
}

func TestCheckStringsRandom(t *testing.T) {
	s := harness.NewSub("name-pairs-random",
		"random pairs of names (pool of given/surnames incl. punctuation, case variants, digits, multi-byte letters; second operand independent or an edit of the first) x boost threshold in {0,0.1..1} x prefix size 0..10; non-trivial = operands differ and score not in {0,1}")
	s.Rapid(t, harness.Share(harness.Pick(150000, 4000000)), 120, func(rt *rapid.T) {
		a := rapid.OneOf(gen.PersonName(), rapid.StringMatching(`[a-cA-C '.-]{0,12}`), rapid.String()).Draw(rt, "a")
		var b string
		switch rapid.IntRange(0, 2).Draw(rt, "bkind") {
		case 0:
			b = mutateName(rt, a)
		case 1:
			b = gen.PersonName().Draw(rt, "b")
		default:
			b = rapid.StringMatching(`[a-cA-C '.-]{0,12}`).Draw(rt, "b2")
		}
		c := strCase{A: gen.Str(a), B: gen.Str(b), Boost: float64(rapid.IntRange(0, 10).Draw(rt, "boost")) / 10, Prefix: rapid.IntRange(0, 10).Draw(rt, "prefix")}
		v := gedcom.StringSimilarity(a, b, c.Boost, c.Prefix)
		s.Eval(harness.JSON(c), a != b && v > 0 && v < 1, fmt.Sprintf("prefix=%d", c.Prefix))
		s.MaybeSample(c)
		if fl := checkStrings(c); fl != nil && s.Report(c, fl) {
			rt.Fatalf("%s", fl.Msg)
		}
	})
}

// ---------------------------------------------------------------------------
// dates

type dateCase struct {
	A, B, C  string
	MaxYears float64 `json:"max_years"`
	Shift    int     `json:"shift"` // multiple of 400 years
}

func shiftYears(s string, k int) string {
	// dates are "[D Mon ]Y" or "Bet. X and Y" built by gen.SimpleDate; shift every 4-digit year
	out := []byte{}
	i := 0
	for i < len(s) {
		j := i
		for j < len(s) && s[j] >= '0' && s[j] <= '9' {
			j++
		}
		if j-i == 4 {
			y := int(s[i]-'0')*1000 + int(s[i+1]-'0')*100 + int(s[i+2]-'0')*10 + int(s[i+3]-'0')
			out = append(out, []byte(fmt.Sprintf("%04d", y+k))...)
			i = j
			continue
		}
		if j > i {
			out = append(out, s[i:j]...)
			i = j
			continue
		}
		out = append(out, s[i])
		i++
	}
	return string(out)
}

func checkDates(c dateCase) *harness.Failure {
	a, b, x := gedcom.NewDateNode(c.A), gedcom.NewDateNode(c.B), gedcom.NewDateNode(c.C)
	if !a.IsValid() || !b.IsValid() || !x.IsValid() {
		return harness.Failf("generator-date-invalid", "generated date invalid: %q %q %q", c.A, c.B, c.C)
	}
	ab, ba := a.Similarity(b, c.MaxYears), b.Similarity(a, c.MaxYears)
	if bad(ab) || bad(ba) {
		return harness.Failf("date-out-of-range", "Similarity(%q,%q)=%v / %v", c.A, c.B, ab, ba)
	}
	if ab != ba {
		return harness.Failf("date-asymmetric", "DateNode.Similarity(%q,%q,%v)=%v, swapped %v", c.A, c.B, c.MaxYears, ab, ba)
	}
	if r := a.DateRange().Similarity(b.DateRange(), c.MaxYears); r != ab {
		return harness.Failf("date-node-vs-range", "DateNode %v vs DateRange %v similarity for %q,%q", ab, r, c.A, c.B)
	}
	if v := a.Similarity(gedcom.NewDateNode(c.A), c.MaxYears); v != 1 {
		return harness.Failf("date-identity", "Similarity(%q,%q)=%v, want 1", c.A, c.A, v)
	}
	dab := math.Abs(a.Years() - b.Years())
	dax := math.Abs(a.Years() - x.Years())
	ax := a.Similarity(x, c.MaxYears)
	if dab <= dax && ab < ax-1e-12 {
		return harness.Failf("date-not-monotone", "%q is %v years from %q (similarity %v) but %v years from %q (similarity %v)", c.A, dab, c.B, ab, dax, c.C, ax)
	}
	if dab >= dax && ax < ab-1e-12 {
		return harness.Failf("date-not-monotone", "%q is %v years from %q (similarity %v) but %v years from %q (similarity %v)", c.A, dax, c.C, ax, dab, c.B, ab)
	}
	if dab >= c.MaxYears && ab != 0 {
		return harness.Failf("date-beyond-max", "%q and %q are %v years apart (max %v) but similarity is %v", c.A, c.B, dab, c.MaxYears, ab)
	}
	if dab < c.MaxYears*(1-1e-9) && ab <= 0 {
		return harness.Failf("date-within-max-zero", "%q and %q are %v years apart (max %v) but similarity is %v", c.A, c.B, dab, c.MaxYears, ab)
	}
	// depends on the distance only: move both by a whole number of 400-year cycles
	a2, b2 := gedcom.NewDateNode(shiftYears(c.A, c.Shift)), gedcom.NewDateNode(shiftYears(c.B, c.Shift))
	if !a2.IsValid() || !b2.IsValid() {
		return harness.Failf("generator-date-invalid", "shifted date invalid: %q %q", a2.Value(), b2.Value())
	}
	if v := a2.Similarity(b2, c.MaxYears); math.Abs(v-ab) > 1e-9 {
		return harness.Failf("date-not-distance-only", "Similarity(%q,%q)=%v but shifted by %d years (%q,%q) it is %v", c.A, c.B, ab, c.Shift, a2.Value(), b2.Value(), v)
	}
	// missing information
	var nilDate *gedcom.DateNode
	if v := a.Similarity(nilDate, c.MaxYears); v != 0.5 {
		return harness.Failf("date-nil-neutral", "Similarity(%q, nil)=%v, want 0.5", c.A, v)
	}
	if v := nilDate.Similarity(a, c.MaxYears); v != 0.5 {
		return harness.Failf("date-nil-neutral", "nil.Similarity(%q)=%v, want 0.5", c.A, v)
	}
	return nil
}

func TestCheckDates(t *testing.T) {
	s := harness.NewSub("date-triples-random",
		"random triples of valid dates (day, month-year, year, keyworded, ranges) within a few years of each other x MaxYears in {0.5,1,3,10,50}: range, symmetry, identity, monotone in |Years difference|, 0 at and beyond MaxYears, invariance under shifting both by a multiple of 400 years, nil = 0.5; non-trivial = score strictly between 0 and 1")
	s.Rapid(t, harness.Share(harness.Pick(100000, 3000000)), 121, func(rt *rapid.T) {
		base := rapid.IntRange(1000, 2400).Draw(rt, "base")
		span := rapid.SampledFrom([]int{0, 1, 3, 12, 60}).Draw(rt, "span")
		dg := func(label string) string {
			d := gen.SimpleDate(base, base+span).Draw(rt, label)
			switch rapid.IntRange(0, 5).Draw(rt, label+"kind") {
			case 0:
				return rapid.SampledFrom([]string{"Abt. ", "Bef. ", "Aft. "}).Draw(rt, label+"kw") + d
			case 1:
				return "Bet. " + d + " and " + gen.SimpleDate(base, base+span).Draw(rt, label+"2")
			}
			return d
		}
		c := dateCase{A: dg("a"), B: dg("b"), C: dg("c"), MaxYears: rapid.SampledFrom([]float64{0.5, 1, 3, 3, 10, 50}).Draw(rt, "maxyears"),
			Shift: 400 * rapid.IntRange(-2, 18).Draw(rt, "shift")}
		if base+c.Shift < 1 || base+span+c.Shift > 9999 {
			c.Shift = 400
		}
		v := gedcom.NewDateNode(c.A).Similarity(gedcom.NewDateNode(c.B), c.MaxYears)
		s.Eval(harness.JSON(c), v > 0 && v < 1, fmt.Sprintf("maxyears=%v", c.MaxYears))
		s.MaybeSample(c)
		if fl := checkDates(c); fl != nil && s.Report(c, fl) {
			rt.Fatalf("%s", fl.Msg)
		}
	})
}

// ---------------------------------------------------------------------------
// individuals, lists, families, surrounding similarity

type graphCase struct {
	Left  *gen.GraphBP `json:"left"`
	Right *gen.GraphBP `json:"right"`
	Opts  optsBP       `json:"opts"`
}

func close12(a, b float64) bool { return math.Abs(a-b) <= 1e-12 }

func checkGraphs(c graphCase) (fl *harness.Failure, nontrivial bool) {
	defer func() {
		if p := recover(); p != nil {
			fl = harness.Failf("panic", "panic while computing similarities: %v", p)
		}
	}()
	o := c.Opts.options()
	ld, rd := c.Left.Doc(), c.Right.Doc()
	li, ri := ld.Individuals(), rd.Individuals()
	var nilInd *gedcom.IndividualNode
	for _, a := range li {
		if v := a.Similarity(nilInd, o); v != 0.5 {
			return harness.Failf("individual-nil-neutral", "Similarity(%s, nil)=%v, want 0.5", a.Pointer(), v), false
		}
		if v := nilInd.Similarity(a, o); v != 0.5 {
			return harness.Failf("individual-nil-neutral", "nil.Similarity(%s)=%v, want 0.5", a.Pointer(), v), false
		}
		for _, b := range ri {
			ab, ba := a.Similarity(b, o), b.Similarity(a, o)
			if bad(ab) || bad(ba) {
				return harness.Failf("individual-out-of-range", "Similarity(%s,%s)=%v / %v", a.Pointer(), b.Pointer(), ab, ba), false
			}
			if ab != ba {
				return harness.Failf("individual-asymmetric", "IndividualNode.Similarity(%s,%s)=%v, swapped %v", a.Pointer(), b.Pointer(), ab, ba), false
			}
			if ab > 0 && ab < 1 {
				nontrivial = true
			}
			sab := a.SurroundingSimilarity(b, o, true)
			sba := b.SurroundingSimilarity(a, o, true)
			for _, x := range []float64{sab.ParentsSimilarity, sab.IndividualSimilarity, sab.SpousesSimilarity, sab.ChildrenSimilarity, sab.WeightedSimilarity()} {
				if bad(x) && !(x > 1 && x < 1+1e-12) {
					return harness.Failf("surrounding-out-of-range", "SurroundingSimilarity(%s,%s) has component %v (%+v)", a.Pointer(), b.Pointer(), x, *sab), false
				}
			}
			if !close12(sab.ParentsSimilarity, sba.ParentsSimilarity) || !close12(sab.SpousesSimilarity, sba.SpousesSimilarity) ||
				!close12(sab.ChildrenSimilarity, sba.ChildrenSimilarity) || !close12(sab.IndividualSimilarity, sba.IndividualSimilarity) ||
				!close12(sab.WeightedSimilarity(), sba.WeightedSimilarity()) {
				return harness.Failf("surrounding-asymmetric", "SurroundingSimilarity(%s,%s) = {par %v ind %v spo %v chi %v} weighted %v, swapped {par %v ind %v spo %v chi %v} weighted %v",
					a.Pointer(), b.Pointer(), sab.ParentsSimilarity, sab.IndividualSimilarity, sab.SpousesSimilarity, sab.ChildrenSimilarity, sab.WeightedSimilarity(),
					sba.ParentsSimilarity, sba.IndividualSimilarity, sba.SpousesSimilarity, sba.ChildrenSimilarity, sba.WeightedSimilarity()), false
			}
			// the mode that Compare and the merge functions use (the calculation may stop early when the
			// individual score alone rules a match out): bounded and independent of operand order as well
			fab, fba := a.SurroundingSimilarity(b, o, false), b.SurroundingSimilarity(a, o, false)
			for _, x := range []float64{fab.ParentsSimilarity, fab.IndividualSimilarity, fab.SpousesSimilarity, fab.ChildrenSimilarity, fab.WeightedSimilarity()} {
				if bad(x) && !(x > 1 && x < 1+1e-12) {
					return harness.Failf("surrounding-out-of-range", "SurroundingSimilarity(%s,%s,false) has component %v (%+v)", a.Pointer(), b.Pointer(), x, *fab), false
				}
			}
			if !close12(fab.ParentsSimilarity, fba.ParentsSimilarity) || !close12(fab.SpousesSimilarity, fba.SpousesSimilarity) ||
				!close12(fab.ChildrenSimilarity, fba.ChildrenSimilarity) || !close12(fab.IndividualSimilarity, fba.IndividualSimilarity) ||
				!close12(fab.WeightedSimilarity(), fba.WeightedSimilarity()) {
				return harness.Failf("surrounding-asymmetric", "SurroundingSimilarity(%s,%s) without forceFullCalculation = {par %v ind %v spo %v chi %v} weighted %v, swapped {par %v ind %v spo %v chi %v} weighted %v",
					a.Pointer(), b.Pointer(), fab.ParentsSimilarity, fab.IndividualSimilarity, fab.SpousesSimilarity, fab.ChildrenSimilarity, fab.WeightedSimilarity(),
					fba.ParentsSimilarity, fba.IndividualSimilarity, fba.SpousesSimilarity, fba.ChildrenSimilarity, fba.WeightedSimilarity()), false
			}
			if len(a.Parents()) == 0 && len(b.Parents()) == 0 && sab.ParentsSimilarity != 0.5 {
				return harness.Failf("parents-missing-neutral", "neither %s nor %s has parents but ParentsSimilarity=%v", a.Pointer(), b.Pointer(), sab.ParentsSimilarity), false
			}
		}
	}
	// lists
	lab, lba := li.Similarity(ri, o), ri.Similarity(li, o)
	if bad(lab) || bad(lba) {
		return harness.Failf("list-out-of-range", "IndividualNodes.Similarity=%v / %v", lab, lba), false
	}
	if !close12(lab, lba) {
		return harness.Failf("list-asymmetric", "IndividualNodes.Similarity(left,right)=%v, swapped %v", lab, lba), false
	}
	if len(li) > 0 && len(ri) > 0 {
		// documented padding: people without a partner above the minimum count 0.5
		best := 0.0
		for _, a := range li {
			for _, b := range ri {
				if v := a.Similarity(b, o); v > best {
					best = v
				}
			}
		}
		if best < o.MinimumSimilarity && lab != 0.5 {
			return harness.Failf("list-padding-neutral", "no pair reaches the minimum similarity %v (best %v) but the list similarity is %v, want 0.5", o.MinimumSimilarity, best, lab), false
		}
		if len(li) == 1 && len(ri) == 1 && best >= o.MinimumSimilarity && lab != best {
			return harness.Failf("list-single-pair", "single pair with similarity %v gives list similarity %v", best, lab), false
		}
	}
	if len(li) > 0 {
		if v := li.Similarity(gedcom.IndividualNodes{}, o); v != 0.5 {
			return harness.Failf("list-empty-neutral", "Similarity(list, empty)=%v, want 0.5", v), false
		}
	}
	// families
	var nilHusb *gedcom.HusbandNode
	var nilWife *gedcom.WifeNode
	for _, f := range ld.Families() {
		if h := f.Husband(); h != nil {
			if v := h.Similarity(nilHusb, o); v != 0.5 {
				return harness.Failf("husband-nil-neutral", "HusbandNode.Similarity(nil)=%v", v), false
			}
		}
		if w := f.Wife(); w != nil {
			if v := w.Similarity(nilWife, o); v != 0.5 {
				return harness.Failf("wife-nil-neutral", "WifeNode.Similarity(nil)=%v", v), false
			}
		}
		for _, g := range rd.Families() {
			fg, gf := f.Similarity(g, 0, o), g.Similarity(f, 0, o)
			if bad(fg) || bad(gf) {
				return harness.Failf("family-out-of-range", "FamilyNode.Similarity(%s,%s)=%v / %v", f.Pointer(), g.Pointer(), fg, gf), false
			}
			if !close12(fg, gf) {
				return harness.Failf("family-asymmetric", "FamilyNode.Similarity(%s,%s)=%v, swapped %v", f.Pointer(), g.Pointer(), fg, gf), false
			}
		}
	}
	return nil, nontrivial
}

func TestCheckGraphs(t *testing.T) {
	s := harness.NewSub("graph-pairs-random",
		"pairs of random family graphs (<= 6 people, <= 4 families each, one pair in 80 with 20..40 people; names of up to 180 bytes from a pool of similar spellings, 0..3 names, missing/duplicate events, dates within a decade incl. keyworded, ranges and unparsable; right side independent or an edited copy of the left) x default or random options (four weights summing to 1, ratio/boost in [0,1], prefix <= 10, MaxYears > 0): every individual x individual, the two lists, every family x family, surrounding similarity with and without forceFullCalculation; non-trivial = some individual score strictly between 0 and 1")
	s.Rapid(t, harness.Share(harness.Pick(6000, 250000)), 122, func(rt *rapid.T) {
		base := rapid.SampledFrom([]int{1850, 1900, 1990}).Draw(rt, "base")
		o := gen.GraphOpts{MaxPeople: 6, MaxFamilies: 4, YearLo: base, YearHi: base + rapid.SampledFrom([]int{2, 10, 80}).Draw(rt, "span"), WildDates: true, UIDs: true, Big: 80, BigLo: 20, BigHi: 40}
		c := graphCase{Left: gen.Graph(o).Draw(rt, "left"), Opts: genOpts(rt)}
		if rapid.Bool().Draw(rt, "copy") {
			b, _ := json.Marshal(c.Left)
			var r gen.GraphBP
			_ = json.Unmarshal(b, &r)
			// edit: rename / re-date some people
			for _, p := range r.People {
				if rapid.IntRange(0, 2).Draw(rt, "edit") == 0 && len(p.Names) > 0 {
					p.Names[0] = gen.Str(mutateName(rt, string(p.Names[0])))
				}
				if rapid.IntRange(0, 3).Draw(rt, "redate") == 0 && len(p.Events) > 0 {
					p.Events[0].Date = gen.Str(gen.SimpleDate(o.YearLo, o.YearHi).Draw(rt, "newdate"))
				}
			}
			c.Right = &r
		} else {
			c.Right = gen.Graph(o).Draw(rt, "right")
		}
		fl, nt := checkGraphs(c)
		cls := "random-options"
		if c.Opts.UseDefaults {
			cls = "default-options"
		}
		isBig := c.Left.IsBig() || c.Right.IsBig()
		if isBig {
			s.Class("big:>=20-people", 1)
		}
		s.Eval(harness.JSON(c), nt, cls)
		if nt && !isBig {
			s.MaybeSample(c)
		}
		if fl != nil && s.Report(c, fl) {
			rt.Fatalf("%s", fl.Msg)
		}
	})
}

// ---- similarity of documents that have a history -------------------------------------------

type simEdit struct {
	Kind string `json:"kind"` // marry | add-child | set-husband | set-wife | add-name | add-birth
	A    int    `json:"a"`
	B    int    `json:"b"`
	C    int    `json:"c"`
}

type simHistCase struct {
	Doc   *gen.GraphBP `json:"doc"`
	Edits []simEdit    `json:"edits"`
}

func simMatrix(doc *gedcom.Document) string {
	o := gedcom.NewSimilarityOptions()
	var b []byte
	inds := doc.Individuals()
	for _, x := range inds {
		for _, y := range inds {
			s := x.SurroundingSimilarity(y, o, true)
			b = append(b, fmt.Sprintf("%s~%s %v %v %v %v %v %v\n", x.Pointer(), y.Pointer(), s.WeightedSimilarity(), s.ParentsSimilarity, s.IndividualSimilarity, s.SpousesSimilarity, s.ChildrenSimilarity, x.Similarity(y, o))...)
		}
	}
	return string(b)
}

// checkSimHistory: similarity is a function of what the documents say, not of what was read
// from them before: a document that was compared, then edited through the public API, scores
// exactly as the same text decoded from nothing.
func checkSimHistory(c simHistCase) (fl *harness.Failure, applied int) {
	defer func() {
		if p := recover(); p != nil {
			fl = harness.Failf("panic", "panic: %v", p)
		}
	}()
	doc, err := gedcom.NewDocumentFromString(c.Doc.Text())
	if err != nil {
		return nil, 0
	}
	// several callers at once on a copy whose lazy values are all still unread: each gets the
	// scores a single caller gets
	if f := parallelScores(c.Doc.Text(), simMatrix(doc)); f != nil {
		return f, 0
	}
	for _, e := range c.Edits {
		inds, fams := doc.Individuals(), doc.Families()
		if len(inds) == 0 {
			break
		}
		x, y, z := inds[e.A%len(inds)], inds[e.B%len(inds)], inds[e.C%len(inds)]
		switch e.Kind {
		case "marry":
			doc.AddFamilyWithHusbandAndWife(fmt.Sprintf("FN%d", applied), x, y)
		case "add-child":
			if len(fams) == 0 {
				continue
			}
			fams[e.B%len(fams)].AddChild(z)
		case "set-husband":
			if len(fams) == 0 {
				continue
			}
			fams[e.B%len(fams)].SetHusband(x)
		case "set-wife":
			if len(fams) == 0 {
				continue
			}
			fams[e.B%len(fams)].SetWife(x)
		case "add-name":
			x.AddName(fmt.Sprintf("Added%d /Later/", e.B))
		case "add-birth":
			x.AddBirthDate(fmt.Sprintf("%d", 1800+e.B%100))
		}
		applied++
		_ = simMatrix(doc)
	}
	if applied == 0 {
		return nil, 0
	}
	live := simMatrix(doc)
	fresh, err := gedcom.NewDocumentFromString(doc.String())
	if err != nil {
		return nil, 0
	}
	if want := simMatrix(fresh); live != want {
		return harness.Failf("history-changes-similarity", "a document that was compared and then edited through the API (%v) scores\n%s\nthe same text decoded from nothing scores\n%s\ntext:\n%s", c.Edits, live, want, doc.String()), applied
	}
	return nil, applied
}

func parallelScores(text, want string) *harness.Failure {
	cold, err := gedcom.NewDocumentFromString(text)
	if err != nil {
		return nil
	}
	const callers = 8
	outs := make([]string, callers)
	start := make(chan struct{})
	var wg sync.WaitGroup
	for k := 0; k < callers; k++ {
		wg.Add(1)
		go func(k int) {
			defer wg.Done()
			defer func() {
				if p := recover(); p != nil {
					outs[k] = fmt.Sprintf("panic: %v", p)
				}
			}()
			<-start
			outs[k] = simMatrix(cold)
		}(k)
	}
	close(start)
	wg.Wait()
	for k := range outs {
		if outs[k] != want {
			return harness.Failf("parallel-scores-differ", "%d callers score every pair of one freshly decoded document at the same time; caller %d gets\n%s\na single caller gets\n%s\nfile:\n%s", callers, k, outs[k], want, text)
		}
	}
	return nil
}

func TestCheckSimilarityHistory(t *testing.T) {
	s := harness.NewSub("similarity-after-history",
		"random family graphs (<= 5 people, <= 3 families) decoded, every pair scored (surrounding, weighted and individual similarity, which fills every lazy cache) - by one caller, and by 8 callers at the same time on another copy with everything still unread, who must all get the single caller's scores -, then 1..4 edits through the public API (AddFamilyWithHusbandAndWife, AddChild, SetHusband, SetWife, AddName, AddBirthDate), scoring again after each; oracle: the full matrix of scores of the live document equals, exactly, the matrix of the same text decoded from nothing; non-trivial = an edit was applied to a document of >= 3 people")
	s.Rapid(t, harness.Share(harness.Pick(6000, 300000)), 123, func(rt *rapid.T) {
		c := simHistCase{Doc: gen.Graph(gen.GraphOpts{MaxPeople: 5, MaxFamilies: 3}).Draw(rt, "doc")}
		for k := rapid.IntRange(1, 4).Draw(rt, "nedits"); k > 0; k-- {
			c.Edits = append(c.Edits, simEdit{Kind: rapid.SampledFrom([]string{"marry", "add-child", "add-child", "set-husband", "set-wife", "add-name", "add-birth"}).Draw(rt, "kind"),
				A: rapid.IntRange(0, 9).Draw(rt, "a"), B: rapid.IntRange(0, 9).Draw(rt, "b"), C: rapid.IntRange(0, 9).Draw(rt, "c")})
		}
		fl, applied := checkSimHistory(c)
		nt := applied > 0 && len(c.Doc.People) >= 3
		s.Eval(harness.JSON(c), nt, fmt.Sprintf("edits:%d", applied))
		if nt {
			s.MaybeSample(c)
		}
		if fl != nil && s.Report(c, fl) {
			rt.Fatalf("%s: %s", fl.Sig, fl.Msg)
		}
	})
}

func init() {
	harness.RegisterReplay("similarity-after-history", func(raw json.RawMessage) *harness.Failure {
		var c simHistCase
		if err := json.Unmarshal(raw, &c); err != nil {
			return harness.Failf("bad-replay", "%v", err)
		}
		fl, _ := checkSimHistory(c)
		return fl
	})
}

func init() {
	harness.Assume("tolerance 1e-12 only where the swap re-associates floating-point sums (lists, families, weighted surrounding similarity); string, date and individual scores must be bit-identical",
		"'depends only on the distance' is tested by moving both dates by a multiple of 400 years (identical calendars), tolerance 1e-9 for the cancellation in the Years difference",
		"a name counts as non-empty when it contains at least one letter or digit of any script (punctuation-only names are treated as empty)",
		"'missing information is 0.5' covers the documented neutral cases: nil individual, nil date, nil husband/wife, both individuals without parents, one empty list")
	harness.RegisterReplay("string-pairs-exhaustive", replayStr)
	harness.RegisterReplay("name-pairs-random", replayStr)
	harness.RegisterReplay("date-triples-random", func(raw json.RawMessage) *harness.Failure {
		var c dateCase
		if err := json.Unmarshal(raw, &c); err != nil {
			return harness.Failf("bad-replay", "%v", err)
		}
		return checkDates(c)
	})
	harness.RegisterReplay("graph-pairs-random", func(raw json.RawMessage) *harness.Failure {
		var c graphCase
		if err := json.Unmarshal(raw, &c); err != nil {
			return harness.Failf("bad-replay", "%v", err)
		}
		fl, _ := checkGraphs(c)
		return fl
	})
}

func replayStr(raw json.RawMessage) *harness.Failure {
	var c strCase
	if err := json.Unmarshal(raw, &c); err != nil {
		return harness.Failf("bad-replay", "%v", err)
	}
	return checkStrings(c)
}

func TestReplay(t *testing.T) { harness.RunReplay(t) }
