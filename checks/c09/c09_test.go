// C09 - merging nodes loses nothing, invents nothing and copies (DESIGN.md 6.9).
package c09

import (
	"encoding/json"
	"fmt"
	"testing"

	"github.com/elliotchance/gedcom/v39"
	"pgregory.net/rapid"

	"verif/internal/gen"
	"verif/internal/harness"
	"verif/internal/tu"
)

func TestMain(m *testing.M) { harness.Main(m, "C09") }

type mergeCase struct {
	// Mode: nodes (MergeNodes) | slices (MergeNodeSlices) | self (MergeNodes(t,t)) | error
	Mode  string        `json:"mode"`
	Left  []*gen.NodeBP `json:"left"`
	Right []*gen.NodeBP `json:"right"`
	Fn    string        `json:"fn,omitempty"` // equality | always | never
	// Mut: index of the result node that is mutated afterwards and the operation
	MutIdx int    `json:"mut_idx"`
	MutOp  string `json:"mut_op"`
}

func buildAll(bps []*gen.NodeBP) (*gedcom.Document, gedcom.Nodes) {
	f := &gen.ForestBP{TopDown: true}
	for _, b := range bps {
		f.Roots = append(f.Roots, b.Clone())
	}
	f.FixRoles()
	built := f.Build()
	var out gedcom.Nodes
	for _, r := range f.Roots {
		out = append(out, built.Nodes[r])
	}
	return built.Doc, out
}

func texts(ns gedcom.Nodes) string {
	s := ""
	for _, n := range ns {
		s += tu.Text(n) + "--\n"
	}
	return s
}

// covers: input node in (and its subtree) is represented below result node res.
func covers(res, in gedcom.Node) (bool, gedcom.Node) {
	if !tu.Equalish(res, in) {
		return false, in
	}
	return coversKids(res, in)
}

func coversKids(res, in gedcom.Node) (bool, gedcom.Node) {
	for _, c := range in.Nodes() {
		ok := false
		var miss gedcom.Node = c
		for _, rc := range res.Nodes() {
			if r, m := covers(rc, c); r {
				ok = true
				break
			} else if m != c {
				miss = m
			}
		}
		if !ok {
			return false, miss
		}
	}
	return true, nil
}

// stems: every node below res is equal to a child of one of the input nodes
// associated with res.
func stems(res gedcom.Node, assoc gedcom.Nodes) (bool, gedcom.Node) {
	for _, rc := range res.Nodes() {
		var next gedcom.Nodes
		for _, a := range assoc {
			for _, ac := range a.Nodes() {
				if tu.Equalish(rc, ac) {
					next = append(next, ac)
				}
			}
		}
		if len(next) == 0 {
			return false, rc
		}
		if ok, miss := stems(rc, next); !ok {
			return false, miss
		}
	}
	return true, nil
}

func siblingsDistinct(n gedcom.Node) bool {
	kids := n.Nodes()
	for i := range kids {
		if !kids[i].Equals(kids[i]) {
			return false
		}
		for j := range kids {
			if i != j && (kids[i].Equals(kids[j]) || tu.SameLine(kids[i], kids[j])) {
				return false
			}
		}
		if !siblingsDistinct(kids[i]) {
			return false
		}
	}
	return true
}

func mutate(res gedcom.Nodes, idx int, op string) bool {
	var all []gedcom.Node
	for _, r := range res {
		all = append(all, tu.All(r)...)
	}
	if len(all) == 0 {
		return false
	}
	n := all[idx%len(all)]
	marker := func() gedcom.Node { return gedcom.NewNode(gedcom.TagFromString("_MUT"), "added later", "") }
	switch op {
	case "delete":
		if k := n.Nodes(); len(k) > 0 {
			n.DeleteNode(k[0])
			return true
		}
		n.AddNode(marker())
	case "setnil":
		n.SetNodes(nil)
		n.AddNode(marker())
	case "leaves":
		// add below every node: exposes sharing anywhere
		for _, x := range all {
			x.AddNode(marker())
		}
	default:
		n.AddNode(marker())
	}
	return true
}

// check runs the oracle and attributes coverage failures on cases with
// Before/After dates to their class (finding C09-F1).
func check(c mergeCase) *harness.Failure {
	fl := checkRaw(c)
	if fl == nil {
		return nil
	}
	switch fl.Sig {
	case "self-merge-grows", "left-node-lost", "right-node-lost", "element-lost", "result-node-invented":
		// coverage is judged with Equals; Date.Equals is documented not to be an
		// equivalence once Before/After dates are involved
		if directional(c.Left, c.Right) {
			fl.Sig += ":directional-dates"
		}
	}
	return fl
}

func checkRaw(c mergeCase) (fl *harness.Failure) {
	defer func() {
		if p := recover(); p != nil {
			fl = harness.Failf("panic", "panic: %v", p)
		}
	}()
	target := gedcom.NewDocument()
	switch c.Mode {
	case "error":
		_, ls := buildAll(c.Left)
		_, rs := buildAll(c.Right)
		var l, r gedcom.Node
		if len(ls) > 0 {
			l = ls[0]
		}
		if len(rs) > 0 {
			r = rs[0]
		}
		res, err := gedcom.MergeNodes(l, r, target)
		wantErr := gedcom.IsNil(l) || gedcom.IsNil(r) || l.Tag().Tag() != r.Tag().Tag()
		if wantErr != (err != nil) {
			return harness.Failf("error-contract", "MergeNodes(%s, %s): err=%v, want error=%v", tu.Describe(l), tu.Describe(r), err, wantErr)
		}
		if (err == nil) == gedcom.IsNil(res) {
			return harness.Failf("error-contract", "MergeNodes returned node=%v with err=%v", !gedcom.IsNil(res), err)
		}
		return nil

	case "nodes", "self":
		ldoc, ls := buildAll(c.Left)
		left := ls[0]
		right, rdoc := left, ldoc
		if c.Mode == "nodes" {
			var rs gedcom.Nodes
			rdoc, rs = buildAll(c.Right)
			right = rs[0]
		}
		lt, rt := tu.Text(left), tu.Text(right)
		ldt, rdt := ldoc.String(), rdoc.String()
		inputs := tu.NewIdentity(left, right)
		res, err := gedcom.MergeNodes(left, right, target)
		if err != nil {
			return harness.Failf("unexpected-error", "MergeNodes of two %s nodes: %v", left.Tag().Tag(), err)
		}
		if tu.Text(left) != lt || tu.Text(right) != rt || ldoc.String() != ldt || rdoc.String() != rdt {
			return harness.Failf("merge-modified-input", "MergeNodes modified an input:\nleft\n%s--- now\n%s\nright\n%s--- now\n%s", lt, tu.Text(left), rt, tu.Text(right))
		}
		if sh := inputs.Shared(res); sh != nil {
			return harness.Failf("result-shares-node", "the merge result contains input node %s itself (not a copy)\nleft:\n%sright:\n%sresult:\n%s", tu.Describe(sh), lt, rt, tu.Text(res))
		}
		if !tu.SameLine(res, left) {
			return harness.Failf("result-root", "result root %s is not the left root %s", tu.Describe(res), tu.Describe(left))
		}
		if ok, miss := coversKids(res, left); !ok {
			return harness.Failf("left-node-lost", "left node %s is not represented in the result\nleft:\n%sright:\n%sresult:\n%s", tu.Describe(miss), lt, rt, tu.Text(res))
		}
		if ok, miss := coversKids(res, right); !ok {
			return harness.Failf("right-node-lost", "right node %s is not represented in the result\nleft:\n%sright:\n%sresult:\n%s", tu.Describe(miss), lt, rt, tu.Text(res))
		}
		if ok, miss := stems(res, gedcom.Nodes{left, right}); !ok {
			return harness.Failf("result-node-invented", "result node %s does not stem from any input node\nleft:\n%sright:\n%sresult:\n%s", tu.Describe(miss), lt, rt, tu.Text(res))
		}
		if n, max := tu.Count(res), tu.Count(left)+tu.Count(right)-1; n > max {
			return harness.Failf("result-too-large", "result has %d nodes, inputs together only %d", n, max)
		}
		if c.Mode == "self" && siblingsDistinct(left) {
			if a, b := tu.Count(res), tu.Count(left); a != b {
				return harness.Failf("self-merge-grows", "merging a tree (no two equal siblings) with itself gives %d nodes instead of %d\ntree:\n%sresult:\n%s", a, b, lt, tu.Text(res))
			}
		}
		resText := tu.Text(res)
		if mutate(gedcom.Nodes{res}, c.MutIdx, c.MutOp) {
			if tu.Text(res) == resText {
				return harness.Failf("oracle-mutation-noop", "mutation had no effect")
			}
			if tu.Text(left) != lt || tu.Text(right) != rt {
				return harness.Failf("result-mutation-shows-in-input", "changing the result (%s) changed an input:\nleft\n%s--- now\n%s\nright\n%s--- now\n%s", c.MutOp, lt, tu.Text(left), rt, tu.Text(right))
			}
		}
		return nil

	case "slices", "documents":
		ldoc, ls := buildAll(c.Left)
		rdoc, rs := buildAll(c.Right)
		if c.Mode == "documents" {
			// the documented third route to a list merge: MergeDocuments merges the root records of two
			// documents (nil = empty) into a new document that "will have a deep copy of all nodes"
			ls, rs = ldoc.Nodes(), rdoc.Nodes()
			if len(ls) == 0 && c.MutIdx%2 == 0 {
				ldoc = nil
			}
			if len(rs) == 0 && c.MutIdx%3 == 0 {
				rdoc = nil
			}
		}
		lt, rt := texts(ls), texts(rs)
		inputs := tu.NewIdentity(append(append(gedcom.Nodes{}, ls...), rs...)...)
		usedRight := map[gedcom.Node]int{}
		usedLeft := map[gedcom.Node]int{}
		produced := map[gedcom.Node]bool{}
		var fnFail *harness.Failure
		base := func(l, r gedcom.Node, d *gedcom.Document) gedcom.Node {
			switch c.Fn {
			case "never":
				return nil
			case "always":
				return gedcom.DeepCopy(l, d)
			}
			return gedcom.EqualityMergeFunction(l, r, d)
		}
		fn := func(l, r gedcom.Node, d *gedcom.Document) gedcom.Node {
			if produced[l] && fnFail == nil {
				fnFail = harness.Failf("merged-element-offered-again", "an element that is already the result of a merge was offered to the merge function again: %s", tu.Describe(l))
			}
			m := base(l, r, d)
			if !gedcom.IsNil(m) {
				usedLeft[l]++
				usedRight[r]++
				produced[m] = true
				if (usedLeft[l] > 1 || usedRight[r] > 1) && fnFail == nil {
					fnFail = harness.Failf("element-merged-twice", "an input element was merged more than once: left %s x%d, right %s x%d", tu.Describe(l), usedLeft[l], tu.Describe(r), usedRight[r])
				}
			}
			return m
		}
		var res gedcom.Nodes
		if c.Mode == "documents" {
			out := gedcom.MergeDocuments(ldoc, rdoc, target, fn)
			if out == nil {
				return harness.Failf("merge-documents-nil", "MergeDocuments returned nil")
			}
			res = out.Nodes()
		} else {
			res = gedcom.MergeNodeSlices(ls, rs, target, fn)
		}
		if fnFail != nil {
			return fnFail
		}
		if texts(ls) != lt || texts(rs) != rt {
			return harness.Failf("merge-modified-input", "MergeNodeSlices modified an input")
		}
		nl, nr, n := len(ls), len(rs), len(res)
		lo := nl
		if nr > lo {
			lo = nr
		}
		if n < lo || n > nl+nr {
			return harness.Failf("list-bounds", "merged list has %d elements for inputs of %d and %d (%s)", n, nl, nr, c.Fn)
		}
		if c.Fn == "always" && n != lo {
			return harness.Failf("list-bounds-always", "always-merge: %d elements, want max(%d,%d)", n, nl, nr)
		}
		if c.Fn == "never" && n != nl+nr {
			return harness.Failf("list-bounds-never", "never-merge: %d elements, want %d+%d", n, nl, nr)
		}
		for _, r := range res {
			if sh := inputs.Shared(r); sh != nil {
				return harness.Failf("result-shares-node", "the merged list contains input node %s itself (not a copy)", tu.Describe(sh))
			}
		}
		if c.Fn != "always" {
			// every input element is represented by a result element
			for _, in := range append(append(gedcom.Nodes{}, ls...), rs...) {
				ok := false
				for _, r := range res {
					if c, _ := covers(r, in); c {
						ok = true
						break
					}
				}
				if !ok {
					return harness.Failf("element-lost", "input element %s is not represented in the merged list\nleft:\n%sright:\n%sresult:\n%s", tu.Describe(in), lt, rt, texts(res))
				}
			}
		}
		// every result element stems from input elements
		for _, r := range res {
			var assoc gedcom.Nodes
			for _, in := range append(append(gedcom.Nodes{}, ls...), rs...) {
				if tu.Equalish(r, in) {
					assoc = append(assoc, in)
				}
			}
			if len(assoc) == 0 {
				return harness.Failf("result-node-invented", "result element %s equals no input element", tu.Describe(r))
			}
			if ok, miss := stems(r, assoc); !ok {
				return harness.Failf("result-node-invented", "result node %s does not stem from any input node\nleft:\n%sright:\n%sresult:\n%s", tu.Describe(miss), lt, rt, texts(res))
			}
		}
		if mutate(res, c.MutIdx, c.MutOp) {
			if texts(ls) != lt || texts(rs) != rt {
				return harness.Failf("result-mutation-shows-in-input", "changing the merged list (%s) changed an input", c.MutOp)
			}
		}
		return nil
	}
	return harness.Failf("bad-case", "unknown mode %q", c.Mode)
}

func directional(lists ...[]*gen.NodeBP) bool {
	for _, l := range lists {
		for _, t := range l {
			found := false
			t.Walk(0, func(n *gen.NodeBP, _ int) {
				if n.Tag == "DATE" {
					r := gedcom.NewDateRangeWithString(string(n.Value))
					if r.IsValid() {
						for _, c := range []gedcom.DateConstraint{r.StartDate().Constraint, r.EndDate().Constraint} {
							if c == gedcom.DateConstraintBefore || c == gedcom.DateConstraintAfter {
								found = true
							}
						}
					}
				}
			})
			if found {
				return true
			}
		}
	}
	return false
}

func TestCheckMerge(t *testing.T) {
	s := harness.NewSub("merge-nodes-and-slices",
		"MergeNodes on pairs of trees with the same root tag (one tree in 30 with 40..160 further children under one node; independent, or an edited/permuted copy so that children overlap), MergeNodes(t,t), the error contract (nil side / different root tags), and MergeNodeSlices - directly and through MergeDocuments on two documents, a nil document for an empty side included - on pairs of node lists (0..5 trees each, overlapping and disjoint, duplicates) with the equality, always-merge and never-merge functions; each followed by a mutation of the result (add/delete/replace children at a random node, or add a leaf below every node); non-trivial = both sides have >= 2 children (elements) with >= 1 equal pair and >= 1 right-only child")
	s.Rapid(t, harness.Share(harness.Pick(100000, 10000000)), 90, func(rt *rapid.T) {
		c := mergeCase{MutIdx: rapid.IntRange(0, 40).Draw(rt, "mutidx"), MutOp: rapid.SampledFrom([]string{"add", "delete", "setnil", "leaves", "leaves"}).Draw(rt, "mutop")}
		c.Mode = rapid.SampledFrom([]string{"nodes", "nodes", "nodes", "self", "slices", "slices", "error", "documents"}).Draw(rt, "mode")
		tree := gen.EqTree(gen.EqTreeOpts{MaxNodes: 16, Roles: true, Wide: 30})
		small := gen.EqTree(gen.EqTreeOpts{MaxNodes: 6, Roles: true})
		nt := false
		switch c.Mode {
		case "nodes":
			l := tree.Draw(rt, "left")
			var r *gen.NodeBP
			if rapid.Bool().Draw(rt, "overlap") {
				// right = permuted copy of left with some children dropped and some added
				r = l.Clone()
				if len(r.Kids) > 0 {
					r.Kids = rapid.Permutation(r.Kids).Draw(rt, "perm")
					r.Kids = r.Kids[:rapid.IntRange(0, len(r.Kids)).Draw(rt, "keep")]
				}
				extra := gen.EqTree(gen.EqTreeOpts{MaxNodes: 8, Roots: []string{l.Tag}, Roles: true}).Draw(rt, "extra")
				r.Kids = append(r.Kids, extra.Kids...)
				r.Value = extra.Value
			} else {
				r = gen.EqTree(gen.EqTreeOpts{MaxNodes: 16, Roots: []string{l.Tag}, Roles: true, Wide: 30}).Draw(rt, "right")
			}
			c.Left, c.Right = []*gen.NodeBP{l}, []*gen.NodeBP{r}
			nt = len(l.Kids) >= 2 && len(r.Kids) >= 2
		case "self":
			l := tree.Draw(rt, "left")
			c.Left = []*gen.NodeBP{l}
			nt = len(l.Kids) >= 2
		case "error":
			switch rapid.IntRange(0, 3).Draw(rt, "errkind") {
			case 0:
				c.Right = []*gen.NodeBP{small.Draw(rt, "r")}
			case 1:
				c.Left = []*gen.NodeBP{small.Draw(rt, "l")}
			default:
				c.Left, c.Right = []*gen.NodeBP{small.Draw(rt, "l")}, []*gen.NodeBP{small.Draw(rt, "r")}
			}
			nt = true
		case "slices", "documents":
			c.Fn = rapid.SampledFrom([]string{"equality", "equality", "always", "never"}).Draw(rt, "fn")
			nl, nr := rapid.IntRange(0, 5).Draw(rt, "nl"), rapid.IntRange(0, 5).Draw(rt, "nr")
			for i := 0; i < nl; i++ {
				c.Left = append(c.Left, small.Draw(rt, fmt.Sprintf("l%d", i)))
			}
			for i := 0; i < nr; i++ {
				if len(c.Left) > 0 && rapid.Bool().Draw(rt, "dup") {
					c.Right = append(c.Right, c.Left[rapid.IntRange(0, len(c.Left)-1).Draw(rt, "dupof")].Clone())
				} else {
					c.Right = append(c.Right, small.Draw(rt, fmt.Sprintf("r%d", i)))
				}
			}
			nt = nl >= 2 && nr >= 2
		}
		cls := []string{"mode:" + c.Mode}
		if c.Fn != "" {
			cls = append(cls, "fn:"+c.Fn)
		}
		wide := false
		for _, t := range append(append([]*gen.NodeBP{}, c.Left...), c.Right...) {
			wide = wide || gen.MaxFanout(t) >= 40
		}
		if wide {
			cls = append(cls, "wide:>=40-siblings")
		}
		s.Eval(harness.JSON(c), nt, cls...)
		if nt && !wide {
			s.MaybeSample(c)
		}
		if fl := check(c); fl != nil {
			if s.Report(c, fl) {
				rt.Fatalf("%s: %s", fl.Sig, fl.Msg)
			}
		}
	})
}

// ---- merging values that have a history -----------------------------------------------------

type histCase struct {
	Left  *gen.NodeBP  `json:"left"`
	Right *gen.NodeBP  `json:"right"`
	Warm  int          `json:"warm"`
	Edits []gen.EditOp `json:"edits"`
}

// warmUp does what earlier calls on the same values would have done: merges, and
// comparisons of every node with every node of the other side.
func warmUp(l, r gedcom.Node, rounds int) {
	for i := 0; i < rounds; i++ {
		_, _ = gedcom.MergeNodes(l, r, gedcom.NewDocument())
		_ = gedcom.MergeNodeSlices(l.Nodes(), r.Nodes(), gedcom.NewDocument(), gedcom.EqualityMergeFunction)
		for _, a := range tu.All(l) {
			for _, b := range tu.All(r) {
				_ = a.Equals(b)
			}
		}
	}
}

// checkHistory: the result of a merge is a function of the content of its inputs, not of
// what was done with them before. Live trees that were merged, compared and then edited
// through the public API must merge exactly as trees built from nothing with the same content.
func checkHistory(c histCase) (fl *harness.Failure, edited int) {
	defer func() {
		if p := recover(); p != nil {
			fl = harness.Failf("panic", "panic: %v", p)
		}
	}()
	_, ls := buildAll([]*gen.NodeBP{c.Left})
	_, rs := buildAll([]*gen.NodeBP{c.Right})
	l, r := ls[0], rs[0]
	warmUp(l, r, c.Warm)
	for _, e := range c.Edits {
		if e.Apply(l, r) {
			edited++
			warmUp(l, r, 1)
		}
	}
	// everything is read from the live trees BEFORE anything is built from nothing: creating
	// nodes resets process-wide caches and would repair what the history left behind
	lbp, rbp := gen.FromNode(l), gen.FromNode(r)
	lt, rtx := tu.Text(l), tu.Text(r)
	show := func() string { return fmt.Sprintf("left:\n%sright:\n%s", lt, rtx) }
	dest := gedcom.NewDocument()
	a, errA := gedcom.MergeNodes(l, r, dest)
	if errA == nil {
		// the result of one merge as the input of the next, into the SAME destination document:
		// it is an input like any other - not modified, and the new result shares nothing with it
		before := tu.Text(a)
		again, errAgain := gedcom.MergeNodes(a, r, dest)
		if errAgain == nil {
			if tu.Text(a) != before {
				return harness.Failf("chained-merge-modifies-input", "MergeNodes(m, r, d), where m is the result of an earlier MergeNodes(..., d) into the same document, modified m:\n%s--- became\n%s", before, tu.Text(a)), edited
			}
			ida := tu.NewIdentity(a)
			for _, n := range tu.All(again) {
				if ida.Has(n) {
					return harness.Failf("chained-merge-shares-node", "the result of MergeNodes(m, r, d) shares %s with its input m (the result of an earlier merge into the same document d)", tu.Describe(n)), edited
				}
			}
		}
	}
	sa := texts(gedcom.MergeNodeSlices(l.Nodes(), r.Nodes(), gedcom.NewDocument(), gedcom.EqualityMergeFunction))
	var selfText [2]string
	var selfErr [2]error
	for k, t := range []gedcom.Node{l, r} {
		x, err := gedcom.MergeNodes(t, t, gedcom.NewDocument())
		selfErr[k] = err
		if err == nil {
			selfText[k] = tu.Text(x)
		}
	}
	ta := ""
	if errA == nil {
		ta = tu.Text(a)
	}
	_, fl2 := buildAll([]*gen.NodeBP{lbp})
	_, fr2 := buildAll([]*gen.NodeBP{rbp})
	l2, r2 := fl2[0], fr2[0]
	if lt != tu.Text(l2) || rtx != tu.Text(r2) {
		return nil, 0 // the builder normalises something: not a comparable case
	}
	b, errB := gedcom.MergeNodes(l2, r2, gedcom.NewDocument())
	if (errA == nil) != (errB == nil) {
		return harness.Failf("history-changes-merge:error", "MergeNodes fails (%v) on trees with a history and not (%v) on the same trees built from nothing\n%s", errA, errB, show()), edited
	}
	if errA == nil && ta != tu.Text(b) {
		return harness.Failf("history-changes-merge:nodes", "MergeNodes of trees that were merged, compared and edited before gives\n%sand of the same trees built from nothing\n%s%s", ta, tu.Text(b), show()), edited
	}
	if sb := texts(gedcom.MergeNodeSlices(l2.Nodes(), r2.Nodes(), gedcom.NewDocument(), gedcom.EqualityMergeFunction)); sa != sb {
		return harness.Failf("history-changes-merge:slices", "MergeNodeSlices of lists with a history gives\n%sand of the same lists built from nothing\n%s%s", sa, sb, show()), edited
	}
	for k, t := range []gedcom.Node{l2, r2} {
		y, errY := gedcom.MergeNodes(t, t, gedcom.NewDocument())
		if (selfErr[k] == nil) != (errY == nil) || (errY == nil && selfText[k] != tu.Text(y)) {
			return harness.Failf("history-changes-merge:self", "merging tree %d with itself gives\n%safter a history and\n%swhen built from nothing\n%s", k, selfText[k], tu.Text(y), show()), edited
		}
	}
	return nil, edited
}

func TestCheckMergeHistory(t *testing.T) {
	s := harness.NewSub("merge-after-history",
		"pairs of trees with the same root tag (as in merge-nodes-and-slices) that are first merged and compared node by node (1..2 rounds), then edited through the public API (1..4 edits: AddNode, DeleteNode, SetNodes(nil), a DATE or PLAC child replaced, the children re-added as new nodes; biased to the children that RESI/EVEN/BIRT derive their equality from), comparing again after every edit; oracle: MergeNodes, MergeNodeSlices and the self-merge of the live trees give exactly the text that the same trees built from nothing give; the result of a merge, merged again into the same destination document, is neither modified nor shared; non-trivial = at least one edit changed a tree with >= 3 nodes")
	s.Rapid(t, harness.Share(harness.Pick(30000, 3000000)), 91, func(rt *rapid.T) {
		l := gen.EqTree(gen.EqTreeOpts{MaxNodes: 14, Roles: false}).Draw(rt, "left")
		var r *gen.NodeBP
		if rapid.Bool().Draw(rt, "overlap") {
			r = l.Clone()
			if len(r.Kids) > 1 {
				r.Kids = rapid.Permutation(r.Kids).Draw(rt, "perm")
			}
		} else {
			r = gen.EqTree(gen.EqTreeOpts{MaxNodes: 14, Roots: []string{l.Tag}, Roles: false}).Draw(rt, "right")
		}
		c := histCase{Left: l, Right: r, Warm: rapid.IntRange(1, 2).Draw(rt, "warm"), Edits: gen.EditOps(4).Draw(rt, "edits")}
		fl, edited := checkHistory(c)
		nt := edited > 0 && l.Count()+r.Count() >= 6
		s.Eval(harness.JSON(c), nt, fmt.Sprintf("effective-edits:%d", edited))
		if nt {
			s.MaybeSample(c)
		}
		if fl != nil && s.Report(c, fl) {
			rt.Fatalf("%s: %s", fl.Sig, fl.Msg)
		}
	})
}

func init() {
	harness.RegisterReplay("merge-after-history", func(raw json.RawMessage) *harness.Failure {
		var c histCase
		if err := json.Unmarshal(raw, &c); err != nil {
			return harness.Failf("bad-replay", "%v", err)
		}
		fl, _ := checkHistory(c)
		return fl
	})
}

func init() {
	harness.Assume("the two root nodes given to MergeNodes are identified by the caller; coverage is required for everything below them ('equal' = Equals either way or same tag/value/pointer)",
		"self-merge premise: no two siblings are Equals or carry the same line, and every node Equals itself (computed on the case)",
		"merges go into a fresh target document")
	harness.RegisterReplay("merge-nodes-and-slices", func(raw json.RawMessage) *harness.Failure {
		var c mergeCase
		if err := json.Unmarshal(raw, &c); err != nil {
			return harness.Failf("bad-replay", "%v", err)
		}
		return check(c)
	})
}

func TestReplay(t *testing.T) { harness.RunReplay(t) }
