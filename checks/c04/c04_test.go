// C04 - every documented date form parses to its documented meaning (DESIGN.md 6.4).
// The meaning of every sentence is known by construction; nothing is parsed by the oracle.
package c04

import (
	"encoding/json"
	"fmt"
	"strings"
	"testing"
	"time"

	"github.com/elliotchance/gedcom/v39"
	"pgregory.net/rapid"

	"verif/internal/gen"
	"verif/internal/harness"
	"verif/internal/ref"
)

func TestMain(m *testing.M) { harness.Main(m, "C04") }

// keyword spellings as documented on Date (and in the DateWords constants)
var kwAbout = []string{"abt", "abt.", "about", "c.", "ca", "ca.", "cca", "cca.", "circa"}
var kwAfter = []string{"aft", "aft.", "after"}
var kwBefore = []string{"bef", "bef.", "before"}
var between = []string{"between", "bet", "bet.", "from"}
var and = []string{"and", "to", "-"}

var monthSpellings = []struct {
	s string
	m int
}{{"jan", 1}, {"january", 1}, {"feb", 2}, {"february", 2}, {"mar", 3}, {"march", 3}, {"apr", 4}, {"april", 4}, {"may", 5},
	{"jun", 6}, {"june", 6}, {"jul", 7}, {"july", 7}, {"aug", 8}, {"august", 8}, {"sep", 9}, {"september", 9},
	{"oct", 10}, {"october", 10}, {"nov", 11}, {"november", 11}, {"dec", 12}, {"december", 12}}

var abbr = []string{"", "Jan", "Feb", "Mar", "Apr", "May", "Jun", "Jul", "Aug", "Sep", "Oct", "Nov", "Dec"}

type form struct {
	Kw    string `json:"kw,omitempty"`    // keyword spelling (lower case), "" = none
	Case  int    `json:"case"`            // 0 lower, 1 UPPER, 2 Mixed
	Day   int    `json:"day,omitempty"`   // 0 = no day
	Zero  bool   `json:"zero,omitempty"`  // one leading zero on the day
	Month string `json:"month,omitempty"` // month spelling (lower case), "" = none
	Year  int    `json:"year"`
	Gaps  []int  `json:"gaps,omitempty"` // extra spaces (0..3) before each token after the first
}

func recase(s string, c int) string {
	switch c {
	case 1:
		return strings.ToUpper(s)
	case 2:
		if s == "" {
			return s
		}
		return strings.ToUpper(s[:1]) + s[1:]
	}
	return s
}

func (f form) tokens() []string {
	var t []string
	if f.Kw != "" {
		t = append(t, recase(f.Kw, f.Case))
	}
	if f.Day != 0 {
		d := fmt.Sprint(f.Day)
		if f.Zero {
			d = "0" + d
		}
		t = append(t, d)
	}
	if f.Month != "" {
		t = append(t, recase(f.Month, f.Case))
	}
	return append(t, fmt.Sprint(f.Year))
}

func join(tokens []string, gaps []int) string {
	var sb strings.Builder
	for i, t := range tokens {
		if i > 0 {
			n := 1
			if i-1 < len(gaps) {
				n += gaps[i-1]
			}
			sb.WriteString(strings.Repeat(" ", n))
		}
		sb.WriteString(t)
	}
	return sb.String()
}

func (f form) sentence() string { return join(f.tokens(), f.Gaps) }

func (f form) monthNum() int {
	for _, ms := range monthSpellings {
		if ms.s == f.Month {
			return ms.m
		}
	}
	return 0
}

func (f form) constraint() gedcom.DateConstraint {
	for _, k := range kwAbout {
		if k == f.Kw {
			return gedcom.DateConstraintAbout
		}
	}
	for _, k := range kwAfter {
		if k == f.Kw {
			return gedcom.DateConstraintAfter
		}
	}
	for _, k := range kwBefore {
		if k == f.Kw {
			return gedcom.DateConstraintBefore
		}
	}
	return gedcom.DateConstraintExact
}

// canonical spelling assembled from the blueprint (documented on Date.String)
func (f form) canonical() string {
	var t []string
	switch f.constraint() {
	case gedcom.DateConstraintAbout:
		t = append(t, "Abt.")
	case gedcom.DateConstraintAfter:
		t = append(t, "Aft.")
	case gedcom.DateConstraintBefore:
		t = append(t, "Bef.")
	}
	if f.Day != 0 {
		t = append(t, fmt.Sprint(f.Day))
	}
	if f.Month != "" {
		t = append(t, abbr[f.monthNum()])
	}
	return strings.Join(append(t, fmt.Sprint(f.Year)), " ")
}

func (f form) same(g form) bool {
	return f.Day == g.Day && f.monthNum() == g.monthNum() && f.Year == g.Year && f.constraint() == g.constraint()
}

type dateCase struct {
	Left    form   `json:"left"`
	Right   *form  `json:"right,omitempty"` // set for ranges
	Between string `json:"between,omitempty"`
	And     string `json:"and,omitempty"`
	RCase   int    `json:"rcase,omitempty"`
	RGaps   []int  `json:"rgaps,omitempty"`
}

func (c dateCase) sentence() string {
	if c.Right == nil {
		return c.Left.sentence()
	}
	return join([]string{recase(c.Between, c.RCase), c.Left.sentence(), recase(c.And, c.RCase), c.Right.sentence()}, c.RGaps)
}

func (c dateCase) canonical() string {
	if c.Right == nil || c.Left.same(*c.Right) {
		return c.Left.canonical()
	}
	return "Bet. " + c.Left.canonical() + " and " + c.Right.canonical()
}

func fieldsOK(d gedcom.Date, f form) bool {
	return d.Day == f.Day && int(d.Month) == f.monthNum() && d.Year == f.Year && d.Constraint == f.constraint()
}

func show(d gedcom.Date) string {
	return fmt.Sprintf("{day %d month %d year %d constraint %d}", d.Day, int(d.Month), d.Year, int(d.Constraint))
}

func kwClass(f form) string {
	switch f.constraint() {
	case gedcom.DateConstraintAbout:
		return "about"
	case gedcom.DateConstraintAfter:
		return "after"
	case gedcom.DateConstraintBefore:
		return "before"
	}
	return "exact"
}

// sigKw gives the failure signature its keyword family + spelling so that distinct
// parser defects are distinct findings.
func check(c dateCase) *harness.Failure {
	s := c.sentence()
	wantL, wantR := c.Left, c.Left
	if c.Right != nil {
		wantR = *c.Right
	}
	routes := []struct {
		name       string
		start, end gedcom.Date
		valid      bool
		str        string
	}{}
	r := gedcom.NewDateRangeWithString(s)
	routes = append(routes, struct {
		name       string
		start, end gedcom.Date
		valid      bool
		str        string
	}{"DateRange", r.StartDate(), r.EndDate(), r.IsValid(), r.String()})
	n := gedcom.NewDateNode(s)
	routes = append(routes, struct {
		name       string
		start, end gedcom.Date
		valid      bool
		str        string
	}{"DateNode", n.StartDate(), n.EndDate(), n.IsValid(), n.String()})
	for _, rt := range routes {
		if !rt.valid {
			return harness.Failf("documented-form-invalid", "%s: documented sentence %q is reported as invalid", rt.name, s)
		}
		if !fieldsOK(rt.start, wantL) {
			return harness.Failf("wrong-meaning:"+kwClass(wantL), "%s: %q: start date is %s, written was %s", rt.name, s, show(rt.start), wantL.canonical())
		}
		if !fieldsOK(rt.end, wantR) {
			return harness.Failf("wrong-meaning:"+kwClass(wantR), "%s: %q: end date is %s, written was %s", rt.name, s, show(rt.end), wantR.canonical())
		}
		if rt.start.IsEndOfRange || !rt.end.IsEndOfRange {
			return harness.Failf("end-of-range-flag", "%s: %q: IsEndOfRange start=%v end=%v", rt.name, s, rt.start.IsEndOfRange, rt.end.IsEndOfRange)
		}
		if want := c.canonical(); rt.str != want {
			return harness.Failf("canonical-spelling", "%s: %q prints as %q, canonical spelling is %q", rt.name, s, rt.str, want)
		}
		back := gedcom.NewDateRangeWithString(rt.str)
		if !back.IsValid() || !fieldsOK(back.StartDate(), wantL) || !fieldsOK(back.EndDate(), wantR) {
			return harness.Failf("print-parse-roundtrip", "%s: %q prints as %q which parses to %s .. %s", rt.name, s, rt.str, show(back.StartDate()), show(back.EndDate()))
		}
	}
	return nil
}

// numeric samples per form
var sampleYears = []int{1, 9, 10, 99, 100, 999, 1000, 1582, 1600, 1900, 2000, 2024, 9999}

func sampleDays(y, m int) []int {
	last := ref.DaysIn(y, m)
	return []int{1, 9, 10, last}
}

func allKeywords() []string {
	k := []string{""}
	k = append(k, kwAbout...)
	k = append(k, kwAfter...)
	return append(k, kwBefore...)
}

func TestCheckExhaustiveForms(t *testing.T) {
	s := harness.NewSub("single-forms-exhaustive",
		"every keyword spelling (9 about, 3 after, 3 before, none) x lower/UPPER/Mixed case x shape {D M Y, M Y, Y} x 23 month spellings x {no, one} leading zero, with sampled numeric fields (days 1, 9, 10, last day of that month; 13 boundary years incl. 1, 1582, 1900, 2000, 9999; thorough: every year ending in 00 or 99 too); plus ranges: every between word x and word x case x every month spelling at the start and at the end x {M Y, D M Y} x 4 keywords; both NewDateRangeWithString and NewDateNode; every sentence is distinct and non-trivial by construction")
	s.SetExhaustive(true)
	years := append([]int(nil), sampleYears...)
	if harness.Thorough() {
		for y := 99; y <= 9999; y += 100 {
			years = append(years, y, y+1)
		}
		years = years[:len(years)-1] // drop 10000
	}
	shard, ns := harness.Shard(), harness.NShards()
	idx := 0
	run := func(f form) {
		idx++
		if idx%ns != shard {
			return
		}
		c := dateCase{Left: f}
		shape := "Y"
		if f.Month != "" {
			shape = "MY"
		}
		if f.Day != 0 {
			shape = "DMY"
		}
		s.EvalN(1, 1, "kw:"+kwClass(f), "shape:"+shape, fmt.Sprintf("case:%d", f.Case))
		if idx%40009 == 7 {
			s.Sample(map[string]interface{}{"sentence": c.sentence(), "case": c})
		}
		if fl := check(c); fl != nil {
			s.Report(c, fl)
		}
	}
	for _, kw := range allKeywords() {
		for cs := 0; cs < 3; cs++ {
			for _, y := range years {
				run(form{Kw: kw, Case: cs, Year: y})
				for _, ms := range monthSpellings {
					run(form{Kw: kw, Case: cs, Month: ms.s, Year: y})
					for _, d := range sampleDays(y, ms.m) {
						run(form{Kw: kw, Case: cs, Day: d, Month: ms.s, Year: y})
						if d < 10 {
							run(form{Kw: kw, Case: cs, Day: d, Zero: true, Month: ms.s, Year: y})
						}
					}
				}
			}
		}
	}
	// ranges: every 'between' word x every 'and' word x case x every month spelling at the start
	// and at the end x {M Y, D M Y} x every keyword family on either end (the range words are
	// also looked for inside the dates: 'October' holds a 'to')
	for _, bw := range between {
		for _, aw := range and {
			for cs := 0; cs < 3; cs++ {
				for _, ms := range monthSpellings {
					for _, kw := range []string{"", "abt.", "bef", "after"} {
						for _, day := range []int{0, 3} {
							other := form{Case: cs, Day: 7, Month: "may", Year: 1825}
							this := form{Kw: kw, Case: cs, Day: day, Month: ms.s, Year: 1820}
							for _, pair := range [][2]form{{this, other}, {form{Case: cs, Day: 2, Month: "mar", Year: 1801}, this}} {
								idx++
								if idx%ns != shard {
									continue
								}
								r := pair[1]
								c := dateCase{Left: pair[0], Right: &r, Between: bw, And: aw}
								s.EvalN(1, 1, "range", "range:"+bw+"/"+aw)
								if fl := check(c); fl != nil {
									s.Report(c, fl)
								}
							}
						}
					}
				}
			}
		}
	}
}

func genForm(t *rapid.T, label string) form {
	f := form{}
	f.Kw = rapid.SampledFrom(allKeywords()).Draw(t, label+"kw")
	f.Case = rapid.IntRange(0, 2).Draw(t, label+"case")
	f.Year = rapid.OneOf(rapid.IntRange(1, 9999), rapid.SampledFrom(sampleYears)).Draw(t, label+"year")
	shape := rapid.IntRange(0, 2).Draw(t, label+"shape")
	if shape >= 1 {
		ms := rapid.SampledFrom(monthSpellings).Draw(t, label+"month")
		f.Month = ms.s
		if shape == 2 {
			f.Day = rapid.IntRange(1, ref.DaysIn(f.Year, ms.m)).Draw(t, label+"day")
			if f.Day < 10 {
				f.Zero = rapid.Bool().Draw(t, label+"zero")
			}
		}
	}
	if rapid.IntRange(0, 3).Draw(t, label+"gappy") == 0 {
		f.Gaps = rapid.SliceOfN(rapid.IntRange(0, 3), 3, 3).Draw(t, label+"gaps")
	}
	return f
}

func TestCheckRandom(t *testing.T) {
	s := harness.NewSub("random-singles-and-ranges",
		"random sentences of the grammar: any keyword/case/shape/month spelling, day 1..last valid day, years 1..9999, 1..4 spaces between tokens; half of the cases are ranges with the 4 'between' words x 3 'and' words x case over two such dates; non-trivial = all (each sentence's meaning is known by construction), distinct by sentence")
	s.Rapid(t, harness.Share(harness.Pick(150000, 20000000)), 40, func(rt *rapid.T) {
		c := dateCase{Left: genForm(rt, "l")}
		cls := []string{"single"}
		if rapid.Bool().Draw(rt, "range") {
			r := genForm(rt, "r")
			c.Right = &r
			c.Between = rapid.SampledFrom(between).Draw(rt, "between")
			c.And = rapid.SampledFrom(and).Draw(rt, "and")
			c.RCase = rapid.IntRange(0, 2).Draw(rt, "rcase")
			if rapid.IntRange(0, 3).Draw(rt, "rgappy") == 0 {
				c.RGaps = rapid.SliceOfN(rapid.IntRange(0, 3), 3, 3).Draw(rt, "rgaps")
			}
			cls = []string{"range", "range:" + c.Between + "/" + c.And}
			if c.Left.Kw != "" || r.Kw != "" {
				cls = append(cls, "range-with-keyword")
			}
			if c.Left.same(r) {
				cls = append(cls, "range-same-ends")
			}
		}
		sent := c.sentence()
		s.Eval([]byte(sent), true, cls...)
		if s.WantSample() {
			s.Sample(map[string]interface{}{"sentence": sent, "case": c})
		}
		if fl := check(c); fl != nil && s.Report(c, fl) {
			rt.Fatalf("%s", fl.Msg)
		}
	})
}

// ---- near misses -----------------------------------------------------------

type missCase struct {
	Sentence string `json:"sentence"`
	Kind     string `json:"kind"`
}

func checkMiss(c missCase) *harness.Failure {
	r := gedcom.NewDateRangeWithString(c.Sentence)
	if r.IsValid() {
		return harness.Failf("near-miss-accepted:"+c.Kind, "%q (%s) is reported as the valid date %q (%s .. %s)", c.Sentence, c.Kind, r.String(), show(r.StartDate()), show(r.EndDate()))
	}
	n := gedcom.NewDateNode(c.Sentence)
	if n.IsValid() {
		return harness.Failf("near-miss-accepted:"+c.Kind, "DateNode %q (%s) is reported as valid: %q", c.Sentence, c.Kind, n.String())
	}
	return nil
}

var unknownMonths = []string{"Foo", "Janu", "Sept", "Mai", "Januar", "Febr", "x", "Ma", "Mayy", "Decem", "J", "Jany"}

func TestCheckNearMisses(t *testing.T) {
	s := harness.NewSub("near-misses-exhaustive",
		"near misses that must be invalid: 12 unknown month words x 16 keywords x {M Y, D M Y} x 3 years; day 0 and 32 in every month; 31 in 30-day months, 30/31 Feb, 29 Feb in non-leap years incl. 1700/1800/1900; missing year; trailing text; each also as left and right end of a range; all distinct by construction")
	s.SetExhaustive(true)
	if harness.Shard() != 0 {
		return
	}
	var cases []missCase
	add := func(kind, sentence string) {
		cases = append(cases, missCase{sentence, kind})
		cases = append(cases, missCase{"Bet. " + sentence + " and 1 Jan 2000", kind + "-in-range-left"})
		cases = append(cases, missCase{"from 1 Jan 1000 to " + sentence, kind + "-in-range-right"})
	}
	for _, kw := range allKeywords() {
		pre := ""
		if kw != "" {
			pre = kw + " "
		}
		for _, um := range unknownMonths {
			for _, y := range []int{7, 1943, 9999} {
				add("unknown-month", fmt.Sprintf("%s%s %d", pre, um, y))
				add("unknown-month", fmt.Sprintf("%s3 %s %d", pre, um, y))
			}
		}
		for m := 1; m <= 12; m++ {
			for _, y := range []int{1700, 1800, 1900, 1999, 2000, 2023, 2024} {
				add("day-0", fmt.Sprintf("%s0 %s %d", pre, abbr[m], y))
				add("day-32", fmt.Sprintf("%s32 %s %d", pre, abbr[m], y))
				for d := ref.DaysIn(y, m) + 1; d <= 31; d++ {
					add("day-beyond-month", fmt.Sprintf("%s%d %s %d", pre, d, abbr[m], y))
				}
			}
		}
		add("missing-year", pre+"3 Sep")
		add("missing-year", pre+"Sep")
		add("trailing-text", pre+"3 Sep 1943 x")
		add("trailing-text", pre+"1943 or so")
		add("day-without-month", pre+"3 1943")
	}
	for _, x := range []string{"", "Abt.", "Bet. 1900", "Bet. 1900 and", "and 1900", "Bet. and", "(3 Sep 1943)", "3/9/1943", "1943-09-03", "Sep 3 1943", "3rd Sep 1943", "3 Sep, 1943"} {
		cases = append(cases, missCase{x, "undocumented-form"})
	}
	for i, c := range cases {
		s.EvalN(1, 1, "kind:"+c.Kind)
		if i%977 == 5 {
			s.Sample(c)
		}
		if fl := checkMiss(c); fl != nil {
			s.Report(c, fl)
		}
	}
	_ = time.January
}

// ---- whatever the parser accepts must survive printing -------------------------------------

type soupCase struct {
	S gen.Str `json:"s"`
}

var soupTokens = []string{"abt", "Abt.", "about", "c.", "ca", "cca.", "circa", "aft", "AFT.", "after", "bef", "Bef.", "before", "bet", "Bet.", "between", "from",
	"and", "to", "-", "Jan", "feb", "MAR", "april", "May", "jun.", "Sept", "sep", "December", "Foo", "0", "1", "03", "9", "10", "28", "29", "30", "31", "32",
	"99", "100", "1582", "1900", "1943", "2000", "9999", "10000", "0000", "(", ")", ".", ",", "/", "BC", "B.C.", "est", "?", "~"}

// sameDate compares what the statement calls "the same start and end dates".
func sameDate(a, b gedcom.Date) bool {
	return a.Day == b.Day && a.Month == b.Month && a.Year == b.Year && a.Constraint == b.Constraint
}

// checkSoup: a string the parser reports as valid prints as a spelling that parses back to
// the same start and end dates and prints the same again. Nothing is required of strings
// that are reported as invalid.
func checkSoup(c soupCase) (fl *harness.Failure, valid bool) {
	defer func() {
		if p := recover(); p != nil {
			fl = harness.Failf("panic", "parsing or printing %q panics: %v", string(c.S), p)
		}
	}()
	r := gedcom.NewDateRangeWithString(string(c.S))
	if !r.IsValid() {
		return nil, false
	}
	s1 := r.String()
	back := gedcom.NewDateRangeWithString(s1)
	if !back.IsValid() {
		return harness.Failf("accepted-string:printed-form-invalid", "%q is valid (%s .. %s) and prints as %q, which is reported as invalid", string(c.S), show(r.StartDate()), show(r.EndDate()), s1), true
	}
	if !sameDate(back.StartDate(), r.StartDate()) || !sameDate(back.EndDate(), r.EndDate()) {
		return harness.Failf("accepted-string:print-parse-roundtrip", "%q is valid (%s .. %s) and prints as %q, which parses to %s .. %s", string(c.S), show(r.StartDate()), show(r.EndDate()), s1, show(back.StartDate()), show(back.EndDate())), true
	}
	if s2 := back.String(); s2 != s1 {
		return harness.Failf("accepted-string:canonical-not-fixed", "%q prints as %q, which prints as %q", string(c.S), s1, s2), true
	}
	return nil, true
}

func TestCheckAcceptedStrings(t *testing.T) {
	s := harness.NewSub("accepted-strings-survive-printing",
		"token soups over the vocabulary of DATE values (keywords, range words, month words incl. an unknown one, numbers 0..10000 with and without leading zeros, punctuation, BC, est, ?) of 1..8 tokens joined by single blanks or nothing (a third), and documented sentences with one or two token mutations (replace, insert, delete, duplicate, swap; two thirds), plus byte mutations: whenever the parser reports the string as valid, its printed form must be valid, parse to the same day/month/year/constraint at both ends and print identically again; strings reported as invalid are only counted; non-trivial = reported as valid and a mutated sentence, or a soup of >= 4 tokens or with a range word")
	s.Rapid(t, harness.Share(harness.Pick(200000, 20000000)), 41, func(rt *rapid.T) {
		var str string
		n, rangeWord := 0, false
		if rapid.IntRange(0, 2).Draw(rt, "fromSentence") > 0 {
			// a documented sentence with one or two token mutations: close to the grammar, so
			// that a good part is still accepted
			dc := dateCase{Left: genForm(rt, "l")}
			if rapid.IntRange(0, 2).Draw(rt, "range") == 0 {
				r := genForm(rt, "r")
				dc.Right = &r
				dc.Between = rapid.SampledFrom(between).Draw(rt, "between")
				dc.And = rapid.SampledFrom(and).Draw(rt, "and")
				rangeWord = true
			}
			words := strings.Fields(dc.sentence())
			for k := rapid.IntRange(1, 2).Draw(rt, "nmut"); k > 0 && len(words) > 0; k-- {
				i := rapid.IntRange(0, len(words)-1).Draw(rt, "pos")
				tok := rapid.SampledFrom(soupTokens).Draw(rt, "tok")
				switch rapid.IntRange(0, 4).Draw(rt, "op") {
				case 0:
					words[i] = tok
				case 1:
					words = append(words[:i], append([]string{tok}, words[i:]...)...)
				case 2:
					words = append(words[:i], words[i+1:]...)
				case 3:
					words = append(words[:i], append([]string{words[i]}, words[i:]...)...)
				default:
					j := rapid.IntRange(0, len(words)-1).Draw(rt, "with")
					words[i], words[j] = words[j], words[i]
				}
			}
			n = 4 // mutated sentences count as non-trivial whenever they are accepted
			str = strings.Join(words, " ")
		} else {
			n = rapid.IntRange(1, 8).Draw(rt, "n")
			var b strings.Builder
			for i := 0; i < n; i++ {
				tok := rapid.SampledFrom(soupTokens).Draw(rt, "tok")
				switch tok {
				case "bet", "Bet.", "between", "from", "and", "to", "-":
					rangeWord = true
				}
				if i > 0 && rapid.IntRange(0, 9).Draw(rt, "glue") > 0 {
					b.WriteByte(' ')
				}
				b.WriteString(tok)
			}
			str = b.String()
		}
		if rapid.IntRange(0, 9).Draw(rt, "mutate") == 0 && len(str) > 0 {
			i := rapid.IntRange(0, len(str)-1).Draw(rt, "at")
			str = str[:i] + string(rune(rapid.IntRange(32, 126).Draw(rt, "byte"))) + str[i+1:]
		}
		c := soupCase{S: gen.Str(str)}
		fl, valid := checkSoup(c)
		cls := "reported-invalid"
		if valid {
			cls = "reported-valid"
		}
		nt := valid && (n >= 4 || rangeWord)
		s.Eval(harness.JSON(c), nt, cls)
		if nt {
			s.MaybeSample(c)
		}
		if fl != nil && s.Report(c, fl) {
			rt.Fatalf("%s: %s", fl.Sig, fl.Msg)
		}
	})
}

// FuzzDateRoundTrip is the coverage-guided version of the same oracle (thorough tier).
func FuzzDateRoundTrip(f *testing.F) {
	for _, seed := range []string{"3 Sep 1943", "Abt. Oct 1943", "Bet. 3 Sep 1943 and Bef. Oct 1943", "from 1900 to 1910", "bef. 31 dec 9999", "(phrase)", "0", "29 Feb 1900", "Between 1 Jan 0001 - 2000"} {
		f.Add(seed)
	}
	f.Fuzz(func(t *testing.T, str string) {
		if len(str) > 200 {
			return
		}
		c := soupCase{S: gen.Str(str)}
		if fl, _ := checkSoup(c); fl != nil && harness.FuzzFail("accepted-strings-survive-printing", c, fl) {
			t.Fatalf("%s: %s", fl.Sig, fl.Msg)
		}
	})
}

func init() {
	harness.RegisterReplay("accepted-strings-survive-printing", func(raw json.RawMessage) *harness.Failure {
		var c soupCase
		if err := json.Unmarshal(raw, &c); err != nil {
			return harness.Failf("bad-replay", "%v", err)
		}
		fl, _ := checkSoup(c)
		return fl
	})
	harness.Assume("the meaning of every sentence is fixed by the generator (no oracle-side parsing)",
		"canonical spelling as documented on Date.String / DateNode.String: 'Abt.|Bef.|Aft.' + 'D Mon Y', ranges as 'Bet. X and Y' when the two ends differ",
		"left out as not clearly documented: years written with leading zeros, more than one leading zero on the day, more than 4 spaces in a row (CleanSpace collapses up to 4)",
		"a near miss must be reported through IsValid() == false, the documented way a date is reported as invalid")
	harness.RegisterReplay("single-forms-exhaustive", replayDate)
	harness.RegisterReplay("random-singles-and-ranges", replayDate)
	harness.RegisterReplay("near-misses-exhaustive", func(raw json.RawMessage) *harness.Failure {
		var c missCase
		if err := json.Unmarshal(raw, &c); err != nil {
			return harness.Failf("bad-replay", "%v", err)
		}
		return checkMiss(c)
	})
}

func replayDate(raw json.RawMessage) *harness.Failure {
	var c dateCase
	if err := json.Unmarshal(raw, &c); err != nil {
		return harness.Failf("bad-replay", "%v", err)
	}
	return check(c)
}

func TestReplay(t *testing.T) { harness.RunReplay(t) }
