// C13 - reads never modify a document and views reflect every edit (DESIGN.md 6.13).
// History property: an operation list is generated as data (so that it shrinks and
// replays without rapid); after every step every derived view of the live document
// is compared with the same view of a fresh decode of the document's current text.
package c13

import (
	"bytes"
	"encoding/json"
	"fmt"
	"io"
	"strings"
	"sync"
	"testing"

	"github.com/elliotchance/gedcom/v39"
	"github.com/elliotchance/gedcom/v39/html"
	"github.com/elliotchance/gedcom/v39/html/core"
	"github.com/elliotchance/gedcom/v39/q"
	"pgregory.net/rapid"

	"verif/internal/gen"
	"verif/internal/harness"
	"verif/internal/tu"
)

func TestMain(m *testing.M) { harness.Main(m, "C13") }

type op struct {
	Kind string `json:"k"`
	A    int    `json:"a,omitempty"`
	B    int    `json:"b,omitempty"`
	S    string `json:"s,omitempty"`
}

type history struct {
	Start *gen.GraphBP `json:"start"`
	Ops   []op         `json:"ops"`
	// Background: while the history runs, another goroutine is in the middle of decoding an
	// unrelated stream (it has read two lines and waits for more). What happens to another
	// document in another goroutine is not part of this document's history.
	Background bool `json:"background,omitempty"`
	// Parallel: after every step the views are read by several goroutines at the same time
	// (the first readers after an edit); each of them must see what a single reader sees.
	Parallel bool `json:"parallel,omitempty"`
}

var editKinds = []string{"AddNode", "DeleteNode", "SetNodes", "AddIndividual", "AddFamily", "AddFamilyWithHusbandAndWife",
	"SetHusband", "SetWife", "SetHusbandNil", "SetWifeNil", "SetHusbandPointer", "SetWifePointer", "AddChild", "DocDeleteNode", "DocAddNode",
	"AddName", "AddBirthDate", "AddDeathDate", "AddBaptismDate", "AddBurialDate", "SetSex"}
var readKinds = []string{"ReadAll", "ReadIndividuals", "ReadFamilies", "ReadPointers", "ReadTags"}
var readOnlyKinds = []string{"Warnings", "String", "Compare", "SurroundingSimilarity", "CompareNodes", "DeepCopyOut", "FilterOut", "Publish", "Query", "Similarity"}

func isEdit(k string) bool {
	for _, e := range editKinds {
		if e == k {
			return true
		}
	}
	return false
}

func isReadOnly(k string) bool {
	for _, e := range readOnlyKinds {
		if e == k {
			return true
		}
	}
	return false
}

// ---- addressing ---------------------------------------------------------------

func allNodes(doc *gedcom.Document) []gedcom.Node {
	var out []gedcom.Node
	for _, r := range doc.Nodes() {
		out = append(out, tu.All(r)...)
	}
	return out
}

func individualsOf(doc *gedcom.Document) []*gedcom.IndividualNode {
	var out []*gedcom.IndividualNode
	for _, r := range doc.Nodes() {
		if i, ok := r.(*gedcom.IndividualNode); ok {
			out = append(out, i)
		}
	}
	return out
}

func familiesOf(doc *gedcom.Document) []*gedcom.FamilyNode {
	var out []*gedcom.FamilyNode
	for _, r := range doc.Nodes() {
		if f, ok := r.(*gedcom.FamilyNode); ok {
			out = append(out, f)
		}
	}
	return out
}

var addTags = []string{"NAME", "BIRT", "DEAT", "SEX", "NOTE", "_X", "DATE", "FAMS", "FAMC", "BAPM", "BURI", "_UID", "PLAC", "RESI"}
var addValues = []string{"", "Added /Name/", "3 Sep 1943", "@F1@", "M", "x"}

// ---- views --------------------------------------------------------------------

func line(n gedcom.Node) string {
	if gedcom.IsNil(n) {
		return "<nil>"
	}
	return n.GEDCOMLine(-1)
}

func ptr(n gedcom.Node) string {
	if gedcom.IsNil(n) {
		return "<nil>"
	}
	return n.Pointer() + "=" + strings.ReplaceAll(n.GEDCOMString(0), "\n", "/")
}

func guard(name string, out *[]string, fn func() string) {
	defer func() {
		if p := recover(); p != nil {
			*out = append(*out, name+" = PANIC "+fmt.Sprint(p))
		}
	}()
	*out = append(*out, name+" = "+fn())
}

func joinNodes(ns gedcom.Nodes) string {
	var s []string
	for _, n := range ns {
		s = append(s, line(n))
	}
	return "[" + strings.Join(s, " | ") + "]"
}

// views renders every derived view of doc canonically. sel chooses the groups.
func views(doc *gedcom.Document, pointers []string, tags []string, sel string) []string {
	var out []string
	all := sel == "ReadAll" || sel == ""
	if all || sel == "ReadTags" {
		for i, n := range allNodes(doc) {
			n := n
			for _, tag := range tags {
				tag := tag
				guard(fmt.Sprintf("NodesWithTag(#%d %s, %s)", i, line(n), tag), &out, func() string {
					return joinNodes(gedcom.NodesWithTag(n, gedcom.TagFromString(tag)))
				})
			}
		}
	}
	if all || sel == "ReadIndividuals" {
		guard("Individuals()", &out, func() string {
			var s []string
			for _, i := range doc.Individuals() {
				s = append(s, ptr(i))
			}
			return strings.Join(s, " ; ")
		})
		for k, ind := range individualsOf(doc) {
			ind := ind
			pre := fmt.Sprintf("individual#%d(%s).", k, ind.Pointer())
			guard(pre+"Names", &out, func() string {
				var s []string
				for _, n := range ind.Names() {
					s = append(s, line(n))
				}
				return strings.Join(s, " | ")
			})
			guard(pre+"Name", &out, func() string { return line(ind.Name()) })
			guard(pre+"Sex", &out, func() string { return line(ind.Sex()) })
			guard(pre+"Births", &out, func() string { return joinNodes(gedcom.NewNodes(ind.Births())) })
			guard(pre+"Baptisms", &out, func() string { return joinNodes(gedcom.NewNodes(ind.Baptisms())) })
			guard(pre+"Deaths", &out, func() string { return joinNodes(gedcom.NewNodes(ind.Deaths())) })
			guard(pre+"Burials", &out, func() string { return joinNodes(gedcom.NewNodes(ind.Burials())) })
			guard(pre+"AllEvents", &out, func() string { return joinNodes(ind.AllEvents()) })
			guard(pre+"UniqueIdentifiers", &out, func() string { return strings.Join(ind.UniqueIdentifiers().Strings(), ",") })
			guard(pre+"Families", &out, func() string {
				var s []string
				for _, f := range ind.Families() {
					s = append(s, ptr(f))
				}
				return strings.Join(s, " ; ")
			})
			guard(pre+"Spouses", &out, func() string {
				var s []string
				for _, f := range ind.Spouses() {
					if f == nil {
						s = append(s, "<nil>")
					} else {
						s = append(s, f.Pointer())
					}
				}
				return strings.Join(s, ",")
			})
			guard(pre+"Parents", &out, func() string {
				var s []string
				for _, f := range ind.Parents() {
					s = append(s, ptr(f))
				}
				return strings.Join(s, " ; ")
			})
			guard(pre+"Children", &out, func() string {
				var s []string
				for _, c := range ind.Children() {
					s = append(s, line(c))
				}
				return strings.Join(s, " | ")
			})
			guard(pre+"IsLiving/String", &out, func() string { return ind.String() })
		}
	}
	if all || sel == "ReadFamilies" {
		guard("Families()", &out, func() string {
			var s []string
			for _, f := range doc.Families() {
				s = append(s, ptr(f))
			}
			return strings.Join(s, " ; ")
		})
		for k, fam := range familiesOf(doc) {
			fam := fam
			pre := fmt.Sprintf("family#%d(%s).", k, fam.Pointer())
			guard(pre+"Husband", &out, func() string { return line(fam.Husband()) })
			guard(pre+"Wife", &out, func() string { return line(fam.Wife()) })
			guard(pre+"Husband.Individual", &out, func() string {
				if i := fam.Husband().Individual(); i != nil {
					return ptr(i)
				}
				return "<nil>"
			})
			guard(pre+"Wife.Individual", &out, func() string {
				if i := fam.Wife().Individual(); i != nil {
					return ptr(i)
				}
				return "<nil>"
			})
			guard(pre+"Children", &out, func() string {
				var s []string
				for _, c := range fam.Children() {
					s = append(s, line(c))
				}
				return strings.Join(s, " | ")
			})
			guard(pre+"Children.Individuals", &out, func() string {
				// "a family's children" as people: every CHIL line resolved through the document
				var s []string
				for _, c := range fam.Children() {
					if i := c.Individual(); i != nil {
						s = append(s, ptr(i)+"="+i.Name().String())
					} else {
						s = append(s, "<nil>")
					}
				}
				s = append(s, "/")
				for _, i := range fam.Children().Individuals() {
					s = append(s, ptr(i))
				}
				return strings.Join(s, " ")
			})
			guard(pre+"Children.Parents", &out, func() string {
				var s []string
				for _, c := range fam.Children() {
					s = append(s, line(c.Father())+"+"+line(c.Mother()))
				}
				return strings.Join(s, " | ")
			})
			guard(pre+"String", &out, func() string { return fam.String() })
		}
	}
	if all || sel == "ReadPointers" {
		for _, p := range pointers {
			p := p
			guard("NodeByPointer("+p+")", &out, func() string { return ptr(doc.NodeByPointer(p)) })
		}
	}
	return out
}

// ---- read-only operations -------------------------------------------------------

type memWriter struct{ n int }

func (w *memWriter) WriteFile(file *core.File) (err error) {
	defer func() {
		if p := recover(); p != nil {
			err = nil // rendering trouble is C14's subject, not C13's
		}
	}()
	var buf bytes.Buffer
	_, _ = file.Component.WriteHTMLTo(&buf)
	w.n++
	return nil
}

var otherText = "0 @X1@ INDI\n1 NAME John /Smith/\n1 BIRT\n2 DATE 3 Sep 1943\n0 @X2@ INDI\n1 NAME Jane /Doe/\n0 @XF@ FAM\n1 HUSB @X1@\n1 WIFE @X2@\n"

func runReadOnly(doc *gedcom.Document, o op) {
	defer func() { _ = recover() }() // crashes of read-only operations are C14's subject
	inds := individualsOf(doc)
	switch o.Kind {
	case "Warnings":
		_ = doc.Warnings().Strings()
	case "String":
		_ = doc.String()
	case "Compare":
		other, _ := gedcom.NewDocumentFromString(otherText)
		opts := gedcom.NewIndividualNodesCompareOptions()
		_ = doc.Individuals().Compare(other.Individuals(), opts)
	case "SurroundingSimilarity", "Similarity":
		if len(inds) > 0 {
			a, b := inds[o.A%len(inds)], inds[o.B%len(inds)]
			if o.Kind == "Similarity" {
				_ = a.Similarity(b, gedcom.NewSimilarityOptions())
			} else {
				_ = a.SurroundingSimilarity(b, gedcom.NewSimilarityOptions(), true).WeightedSimilarity()
			}
		}
	case "CompareNodes":
		roots := doc.Nodes()
		if len(roots) > 0 {
			d := gedcom.CompareNodes(roots[o.A%len(roots)], roots[o.B%len(roots)])
			d.Sort()
			_ = d.String()
		}
	case "DeepCopyOut":
		roots := doc.Nodes()
		if len(roots) > 0 {
			_ = gedcom.DeepCopy(roots[o.A%len(roots)], gedcom.NewDocument())
		}
	case "FilterOut":
		roots := doc.Nodes()
		if len(roots) > 0 {
			// every filter of the library, applied directly and through FilterFlags
			root, target := roots[o.A%len(roots)], gedcom.NewDocument()
			all := &gedcom.FilterFlags{NoEvents: true, NoResidences: true, NoPlaces: true, NoSources: true, NoMaps: true, NoChanges: true, NoObjects: true,
				NoLabels: true, NoCensuses: true, NoEmptyDeaths: true, NoDuplicateNames: true, OnlyVitals: true, OnlyOfficial: true}
			switch o.B % 10 {
			case 0:
				_ = gedcom.Filter(root, target, gedcom.OfficialTagFilter())
			case 1:
				_ = gedcom.Filter(root, target, gedcom.WhitelistTagFilter(gedcom.TagName, gedcom.TagBirth, gedcom.TagDate))
			case 2:
				_ = gedcom.Filter(root, target, gedcom.BlacklistTagFilter(gedcom.TagNote, gedcom.TagSex))
			case 3:
				_ = gedcom.Filter(root, target, gedcom.SimpleNameFilter(gedcom.NameFormatWritten))
			case 4:
				_ = gedcom.Filter(root, target, gedcom.OnlyVitalsTagFilter())
			case 5:
				_ = gedcom.Filter(root, target, gedcom.RemoveEmptyDeathTagFilter())
			case 6, 7:
				_ = gedcom.Filter(root, target, gedcom.RemoveDuplicateNamesFilter())
			case 8:
				_ = all.Filter(root, target)
			default:
				_ = (&gedcom.FilterFlags{NoDuplicateNames: true, NoEmptyDeaths: true}).Filter(root, target)
			}
		}
	case "Publish":
		opts := &html.PublishShowOptions{ShowIndividuals: true, ShowPlaces: true, ShowFamilies: true, ShowSurnames: true, ShowSources: true, ShowStatistics: true,
			LivingVisibility: html.LivingVisibilityShow}
		_ = html.NewPublisher(doc, opts).Publish(&memWriter{}, 1)
	case "Query":
		queries := []string{".Individuals | .Name | .String", ".Families | { husband: .Husband | .String, wife: .Wife | .String }", ".Individuals | .Births | .Dates", ".Individuals | Only(.IsLiving) | Length", ".Nodes | .GEDCOMLine",
			// functions whose results are cut from, or joined to, lists that the document holds
			"Combine(.Nodes | First(1), .Nodes | Last(1))", "Combine(.Families | First(1), .Families | Last(1)) | .Pointer", "Combine(.Nodes | First(0), .Individuals)", ".Individuals | First(1) | .Families | First(1) | .Children",
			"Combine(.Individuals | .Families | First(1), .Families)", ".Nodes | Last(2) | .Nodes | First(1)", ".Individuals | Only(.Name | .Surname = \"Smith\") | .Spouses", "X is .Nodes | First(1); Combine(X, X, .Nodes | Last(1))"}
		e, err := q.NewParser().ParseString(queries[o.A%len(queries)])
		if err == nil {
			_, _ = e.Evaluate([]*gedcom.Document{doc})
		}
	}
}

// ---- edits --------------------------------------------------------------------

// publishable says whether the Publish operation can be run without risking the
// process: every individual has a name (C14 owns robustness on hostile files).
func publishable(doc *gedcom.Document) bool {
	for _, i := range individualsOf(doc) {
		if len(i.Names()) == 0 {
			return false
		}
	}
	return len(individualsOf(doc)) > 0
}

func applyEdit(doc *gedcom.Document, o op, pointers *[]string) (desc string) {
	nodes := allNodes(doc)
	inds := individualsOf(doc)
	fams := familiesOf(doc)
	pickNode := func(i int) gedcom.Node {
		if len(nodes) == 0 {
			return nil
		}
		return nodes[i%len(nodes)]
	}
	pickInd := func(i int) *gedcom.IndividualNode {
		if len(inds) == 0 {
			return nil
		}
		return inds[i%len(inds)]
	}
	pickFam := func(i int) *gedcom.FamilyNode {
		if len(fams) == 0 {
			return nil
		}
		return fams[i%len(fams)]
	}
	remember := func(p string) {
		for _, x := range *pointers {
			if x == p {
				return
			}
		}
		*pointers = append(*pointers, p)
	}
	switch o.Kind {
	case "AddNode":
		if n := pickNode(o.A); n != nil {
			if _, isSex := n.(*gedcom.SexNode); false && isSex {
				return "skip"
			}
			tag, val := addTags[o.B%len(addTags)], addValues[(o.B/len(addTags))%len(addValues)]
			n.AddNode(gedcom.NewNode(gedcom.TagFromString(tag), val, ""))
			return fmt.Sprintf("AddNode(%s <- %s %s)", line(n), tag, val)
		}
	case "DeleteNode":
		if n := pickNode(o.A); n != nil {
			if kids := n.Nodes(); len(kids) > 0 {
				k := kids[o.B%len(kids)]
				n.DeleteNode(k)
				return fmt.Sprintf("DeleteNode(%s -x %s)", line(n), line(k))
			}
		}
	case "SetNodes":
		if n := pickNode(o.A); n != nil {
			kids := n.Nodes()
			switch o.B % 3 {
			case 0:
				n.SetNodes(nil)
			case 1:
				rev := make(gedcom.Nodes, len(kids))
				for i, k := range kids {
					rev[len(kids)-1-i] = k
				}
				n.SetNodes(rev)
			default:
				n.SetNodes(append(gedcom.Nodes{}, kids[:len(kids)/2]...))
			}
			return fmt.Sprintf("SetNodes(%s, mode %d)", line(n), o.B%3)
		}
	case "AddIndividual":
		p := fmt.Sprintf("N%d", o.A%4)
		if o.B%3 == 2 {
			// (a third of the time under the pointer of somebody who is already there: a second record
			// with the same identifier, which the API allows and a decoder accepts)
			if i := pickInd(o.B / 3); i != nil {
				p = i.Pointer()
			}
		}
		remember(p)
		doc.AddIndividual(p, gedcom.NewNameNode("New /Person/"))
		return "AddIndividual(" + p + ")"
	case "AddFamily":
		p := fmt.Sprintf("NF%d", o.A%3)
		remember(p)
		doc.AddFamily(p)
		return "AddFamily(" + p + ")"
	case "AddFamilyWithHusbandAndWife":
		if h, w := pickInd(o.A), pickInd(o.B); h != nil {
			p := fmt.Sprintf("NF%d", (o.A+o.B)%3)
			remember(p)
			doc.AddFamilyWithHusbandAndWife(p, h, w)
			return fmt.Sprintf("AddFamilyWithHusbandAndWife(%s, %s, %s)", p, h.Pointer(), w.Pointer())
		}
	case "SetHusband", "SetWife":
		if f, i := pickFam(o.A), pickInd(o.B); f != nil && i != nil {
			if o.Kind == "SetHusband" {
				f.SetHusband(i)
			} else {
				f.SetWife(i)
			}
			return fmt.Sprintf("%s(%s, %s)", o.Kind, f.Pointer(), i.Pointer())
		}
	case "SetHusbandNil", "SetWifeNil":
		if f := pickFam(o.A); f != nil {
			if o.Kind == "SetHusbandNil" {
				f.SetHusband(nil)
			} else {
				f.SetWife(nil)
			}
			return fmt.Sprintf("%s(%s)", o.Kind, f.Pointer())
		}
	case "SetHusbandPointer", "SetWifePointer":
		if f := pickFam(o.A); f != nil {
			p := "nobody"
			if i := pickInd(o.B); i != nil && o.B%5 != 0 {
				p = i.Pointer()
			}
			if o.Kind == "SetHusbandPointer" {
				f.SetHusbandPointer(p)
			} else {
				f.SetWifePointer(p)
			}
			return fmt.Sprintf("%s(%s, %s)", o.Kind, f.Pointer(), p)
		}
	case "AddChild":
		if f, i := pickFam(o.A), pickInd(o.B); f != nil && i != nil {
			f.AddChild(i)
			return fmt.Sprintf("AddChild(%s, %s)", f.Pointer(), i.Pointer())
		}
	case "DocDeleteNode":
		if roots := doc.Nodes(); len(roots) > 0 {
			r := roots[o.A%len(roots)]
			if o.B%3 == 1 {
				r = roots[len(roots)-1] // (a third of the time the record added last: undoing an addition)
			}
			doc.DeleteNode(r)
			return "Document.DeleteNode(" + line(r) + ")"
		}
	case "DocAddNode":
		p := ""
		if o.A%2 == 0 {
			p = fmt.Sprintf("R%d", o.A%3)
			remember(p)
		}
		doc.AddNode(gedcom.NewNode(gedcom.TagFromString("NOTE"), "root note", p))
		return "Document.AddNode(NOTE " + p + ")"
	case "AddName", "AddBirthDate", "AddDeathDate", "AddBaptismDate", "AddBurialDate", "SetSex":
		if i := pickInd(o.A); i != nil {
			switch o.Kind {
			case "AddName":
				i.AddName("Extra /Name/")
			case "AddBirthDate":
				i.AddBirthDate("1 Jan 1900")
			case "AddDeathDate":
				i.AddDeathDate("2 Feb 1950")
			case "AddBaptismDate":
				i.AddBaptismDate("3 Mar 1900")
			case "AddBurialDate":
				i.AddBurialDate("4 Apr 1950")
			case "SetSex":
				i.SetSex([]string{"M", "F", "U"}[o.B%3])
			}
			return fmt.Sprintf("%s(%s)", o.Kind, i.Pointer())
		}
	}
	return "skip"
}

// ---- the history check ----------------------------------------------------------

type result struct {
	edits, reads, readOnly int
	editAfterRead          bool
	classes                []string
}

func check(h history) (fl *harness.Failure, res result) {
	defer func() {
		if p := recover(); p != nil {
			fl = harness.Failf("panic", "panic outside a guarded view: %v", p)
		}
	}()
	text := h.Start.Text()
	doc, err := gedcom.NewDocumentFromString(text)
	if err != nil {
		return harness.Failf("generator-text-rejected", "%v", err), res
	}
	if h.Background {
		pr, pw := io.Pipe()
		done := make(chan struct{})
		go func() {
			defer close(done)
			defer func() { _ = recover() }()
			_, _ = gedcom.NewDecoder(pr).Decode()
		}()
		// (a pipe hands bytes over synchronously: when Write returns the decoder has them)
		_, _ = pw.Write([]byte("0 HEAD\n1 CHAR UTF-8\n0 @X1@ INDI\n"))
		defer func() {
			_ = pw.Close()
			<-done
		}()
	}
	var pointers []string
	for _, p := range h.Start.People {
		pointers = append(pointers, p.ID)
	}
	for _, f := range h.Start.Families {
		pointers = append(pointers, f.ID)
	}
	pointers = append(pointers, "nobody", "S1")
	tags := []string{"NAME", "BIRT", "DEAT", "HUSB", "WIFE", "CHIL", "SEX", "DATE", "FAMS", "_X", "ZZZZ"}
	lastEdit, lastRead := "none", "none"
	warmed := false
	// compare reads every view of the live document FIRST and only then decodes the
	// fresh copy: decoding modifies process-wide cache state (every AddNode resets
	// the children-by-tag cache), so doing it first would hide stale views.
	compare := func(step int, what string) *harness.Failure {
		var live []string
		var others [][]string
		if h.Parallel {
			const readers = 6
			all := make([][]string, readers)
			start := make(chan struct{})
			var wg sync.WaitGroup
			for k := 0; k < readers; k++ {
				wg.Add(1)
				go func(k int) {
					defer wg.Done()
					defer func() { _ = recover() }()
					<-start
					// (every reader starts somewhere else: by pointer, with the families, ...)
					_ = views(doc, pointers, tags, []string{"ReadPointers", "ReadFamilies", "ReadIndividuals", "ReadPointers", "ReadFamilies", "ReadTags"}[k])
					all[k] = views(doc, pointers, tags, "")
				}(k)
			}
			close(start)
			wg.Wait()
			live, others = all[0], all[1:]
		} else {
			live = views(doc, pointers, tags, "")
		}
		cur := doc.String()
		fresh, err := gedcom.NewDocumentFromString(cur)
		if err != nil {
			return harness.Failf("text-not-decodable", "after step %d (%s) the document's text is rejected by the decoder: %v\n%s", step, what, err, cur)
		}
		want := views(fresh, pointers, tags, "")
		for k, o := range others {
			if len(o) != len(want) {
				return harness.Failf("parallel-readers:view-count", "after step %d (%s): one of %d readers at the same time gets %d views, a fresh decode has %d", step, what, len(others)+1, len(o), len(want))
			}
			for i := range o {
				if o[i] != want[i] {
					vk := o[i]
					if j := strings.Index(vk, " = "); j > 0 {
						vk = vk[:j]
					}
					return harness.Failf("parallel-readers:stale:"+viewKind(vk)+":after:"+lastEdit, "after step %d (%s; last edit %s) reader %d of %d that read the views at the same time sees something else than a fresh decode of the current text:\n  live : %s\n  fresh: %s\ncurrent text:\n%s", step, what, lastEdit, k+2, len(others)+1, o[i], want[i], cur)
				}
			}
		}
		if len(live) != len(want) {
			return harness.Failf("view-count", "after step %d (%s): %d views on the live document, %d on a fresh decode", step, what, len(live), len(want))
		}
		for i := range live {
			if live[i] != want[i] {
				vk := live[i]
				if j := strings.Index(vk, " = "); j > 0 {
					vk = vk[:j]
				}
				kind := viewKind(vk)
				return harness.Failf("stale:"+kind+":after:"+lastEdit, "after step %d (%s; last edit %s, views warmed by %s) the view differs from a fresh decode of the current text:\n  live : %s\n  fresh: %s\ncurrent text:\n%s", step, what, lastEdit, lastRead, live[i], want[i], cur)
			}
		}
		return nil
	}
	// warm fills the caches immediately before the next edit (nothing that could
	// reset them runs in between).
	pendingWarm := "ReadAll"
	warm := func() {
		if pendingWarm != "" {
			_ = views(doc, pointers, tags, pendingWarm)
			lastRead = pendingWarm
			warmed = true
		}
	}
	for step, o := range h.Ops {
		switch {
		case isEdit(o.Kind):
			warmed = false
			if o.B%5 != 0 {
				warm()
			}
			d := applyEdit(doc, o, &pointers)
			if d == "skip" {
				continue
			}
			res.edits++
			lastEdit = o.Kind
			if warmed {
				res.editAfterRead = true
				res.classes = append(res.classes, "edit-after-read:"+o.Kind)
			} else {
				res.classes = append(res.classes, "edit-cold")
			}
			if f := compare(step, d); f != nil {
				return f, res
			}
		case isReadOnly(o.Kind):
			if o.Kind == "Publish" && !publishable(doc) {
				continue
			}
			res.readOnly++
			before := doc.String()
			warm()
			runReadOnly(doc, o)
			if after := doc.String(); after != before {
				return harness.Failf("read-only-modified:"+o.Kind, "step %d: the read-only operation %s changed the document's text:\n%s--- became\n%s", step, o.Kind, before, after), res
			}
			res.classes = append(res.classes, "read-only:"+o.Kind)
			if f := compare(step, o.Kind); f != nil {
				f.Sig = "after-read-only:" + o.Kind + ":" + f.Sig
				return f, res
			}
		default:
			// a read operation selects which views are warmed before the next edit
			res.reads++
			pendingWarm = o.Kind
		}
	}
	return nil, res
}

func viewKind(v string) string {
	switch {
	case strings.HasPrefix(v, "NodesWithTag"):
		return "NodesWithTag"
	case strings.HasPrefix(v, "NodeByPointer"):
		return "NodeByPointer"
	case strings.HasPrefix(v, "Individuals()"):
		return "Individuals"
	case strings.HasPrefix(v, "Families()"):
		return "Families"
	}
	if i := strings.LastIndex(v, ")."); i > 0 {
		pre := "individual."
		if strings.HasPrefix(v, "family") {
			pre = "family."
		}
		return pre + v[i+2:]
	}
	return v
}

func genOp(t *rapid.T) op {
	kinds := rapid.SampledFrom([][]string{editKinds, editKinds, editKinds, readKinds, readOnlyKinds}).Draw(t, "class")
	return op{Kind: rapid.SampledFrom(kinds).Draw(t, "kind"), A: rapid.IntRange(0, 40).Draw(t, "a"), B: rapid.IntRange(0, 100).Draw(t, "b")}
}

func TestCheckHistories(t *testing.T) {
	s := harness.NewSub("random-histories",
		"operation lists of 1..25 steps (for a quarter of them the views are read after every step by 6 goroutines at the same time, and every reader must see what the fresh decode shows) over a random referentially closed family graph (<= 5 people, <= 3 families, one in 120 with 30..100 people; decoded from text): 21 edit operations (AddNode/DeleteNode/SetNodes on arbitrary nodes, AddIndividual, AddFamily, AddFamilyWithHusbandAndWife, SetHusband/SetWife incl. nil, SetHusbandPointer/SetWifePointer, AddChild, Document.DeleteNode/AddNode, AddName/Add*Date/SetSex), 5 read operations that warm caches, 10 read-only operations (Warnings, String, Compare, SurroundingSimilarity, Similarity, CompareNodes+Sort, DeepCopy and every filter of the library - directly and through FilterFlags - into another document, in-memory publish, queries); a third of the start documents hold somebody with the same NAME twice; a sixth of the histories add an individual under a pointer that is already in use and later delete the record added last; during a fifth of the histories another goroutine is in the middle of decoding an unrelated stream; after every edit and read-only step all views (NodesWithTag for every node x 11 tags, Individuals, Families, NodeByPointer for every pointer ever seen, per individual Names/Sex/Births/Baptisms/Deaths/Burials/AllEvents/UniqueIdentifiers/Families/Spouses/Parents/Children/String, per family Husband/Wife/their individuals/Children/the individuals and parents of the children/String) are compared with a fresh decode of Document.String(); read-only steps must leave the text unchanged; non-trivial = an edit that follows a read of the views")
	s.Rapid(t, harness.Share(harness.Pick(12000, 300000)), 130, func(rt *rapid.T) {
		h := history{Start: gen.Graph(gen.GraphOpts{MaxPeople: 5, MaxFamilies: 3, UIDs: true, Sources: true, Big: 120, BigLo: 30, BigHi: 100}).Draw(rt, "start")}
		if len(h.Start.People) > 0 && rapid.IntRange(0, 2).Draw(rt, "duplicateName") == 0 {
			// somebody has the same NAME twice (and lines after it): what the duplicate-name filter looks for
			p := h.Start.People[rapid.IntRange(0, len(h.Start.People)-1).Draw(rt, "dupOf")]
			if len(p.Names) > 0 {
				p.Names = append([]gen.Str{p.Names[0]}, p.Names...)
			}
		}
		n := rapid.IntRange(1, 25).Draw(rt, "nops")
		for i := 0; i < n; i++ {
			h.Ops = append(h.Ops, genOp(rt))
		}
		// (a sixth of the histories add a record and take it away again: an individual under a pointer
		// that is already in use, some steps later the record that was added last is deleted)
		if rapid.IntRange(0, 5).Draw(rt, "addAndUndo") == 3 {
			at := rapid.IntRange(0, len(h.Ops)).Draw(rt, "addAt")
			add := op{Kind: "AddIndividual", A: rapid.IntRange(0, 40).Draw(rt, "addA"), B: 2 + 3*rapid.IntRange(0, 30).Draw(rt, "addB")}
			h.Ops = append(h.Ops[:at], append([]op{add}, h.Ops[at:]...)...)
			undo := rapid.IntRange(at+1, len(h.Ops)).Draw(rt, "undoAt")
			h.Ops = append(h.Ops[:undo], append([]op{{Kind: "DocDeleteNode", A: 1, B: 1}}, h.Ops[undo:]...)...)
		}
		h.Background = rapid.IntRange(0, 4).Draw(rt, "background") == 2
		h.Parallel = rapid.IntRange(0, 3).Draw(rt, "parallel") == 2
		s.Crumb(h) // read-only operations start goroutines inside the library: a panic there kills the process
		fl, res := check(h)
		if h.Parallel {
			res.classes = append(res.classes, "parallel-readers-after-every-step")
		}
		if h.Start.IsBig() {
			res.classes = append(res.classes, "big:>=20-people")
		}
		s.Eval(harness.JSON(h), res.editAfterRead, dedupe(res.classes)...)
		if res.editAfterRead && !h.Start.IsBig() {
			s.MaybeSample(h)
		}
		if fl != nil && s.Report(h, fl) {
			rt.Fatalf("%s: %s", fl.Sig, fl.Msg)
		}
	})
}

func dedupe(xs []string) []string {
	seen := map[string]bool{}
	var out []string
	for _, x := range xs {
		if !seen[x] {
			seen[x] = true
			out = append(out, x)
		}
	}
	return out
}

// every sequence up to a small length over a small alphabet on a fixed document
func TestCheckExhaustive(t *testing.T) {
	maxLen := harness.Pick(4, 5)
	alphabet := []op{
		{Kind: "AddChild", A: 0, B: 2}, {Kind: "SetHusband", A: 0, B: 1}, {Kind: "SetHusbandNil", A: 0}, {Kind: "DeleteNode", A: 0, B: 0},
		{Kind: "SetNodes", A: 0, B: 0}, {Kind: "DocDeleteNode", A: 3}, {Kind: "AddIndividual", A: 1}, {Kind: "Warnings"},
		{Kind: "AddName", A: 0}, {Kind: "SetWife", A: 0, B: 2},
	}
	s := harness.NewSub("exhaustive-short-histories",
		fmt.Sprintf("every operation sequence of length 1..%d over a 10-operation alphabet (AddChild, SetHusband, SetHusband(nil), DeleteNode, SetNodes(nil), Document.DeleteNode, AddIndividual, Warnings, AddName, SetWife) on a fixed three-person, one-family document; distinct by construction, non-trivial = length >= 2", maxLen))
	s.SetExhaustive(true)
	start := &gen.GraphBP{
		People: []*gen.PersonBP{{ID: "I1", Names: []gen.Str{"John /Smith/"}, Sex: []string{"M"}, Events: []gen.EventBP{{Tag: "BIRT", Date: "3 Sep 1943", HasDate: true}}},
			{ID: "I2", Names: []gen.Str{"Jane /Doe/"}, Sex: []string{"F"}}, {ID: "I3", Names: []gen.Str{"Kid /Smith/"}}},
		Families: []*gen.FamilyBP{{ID: "F1", Husb: "I1", Wife: "I2", Children: []string{"I3"}}},
	}
	shard, ns := harness.Shard(), harness.NShards()
	idx := 0
	var rec func(prefix []op)
	rec = func(prefix []op) {
		if len(prefix) > 0 {
			idx++
			if idx%ns == shard {
				h := history{Start: start, Ops: append([]op(nil), prefix...)}
				fl, _ := check(h)
				nt := int64(0)
				if len(prefix) >= 2 {
					nt = 1
				}
				s.EvalN(1, nt, fmt.Sprintf("length=%d", len(prefix)))
				if idx%3001 == 11 {
					s.Sample(h)
				}
				if fl != nil {
					s.Report(h, fl)
				}
			}
		}
		if len(prefix) == maxLen {
			return
		}
		for _, o := range alphabet {
			rec(append(prefix, o))
		}
	}
	rec(nil)
}

func init() {
	harness.Assume("the model of every view is the same view on a fresh decode of Document.String(); views are read through the public accessors only and compared as canonical strings",
		"a view that panics on the live document must panic the same way on the fresh decode (crashes themselves are C14's subject)",
		"Document.SetNodes (replacing the root records wholesale) is not in the statement's list of edits and is not generated",
		"the in-memory publish runs with living people shown and only when every individual has a name")
	harness.RegisterReplay("random-histories", replay)
	harness.RegisterReplay("exhaustive-short-histories", replay)
}

func replay(raw json.RawMessage) *harness.Failure {
	var h history
	if err := json.Unmarshal(raw, &h); err != nil {
		return harness.Failf("bad-replay", "%v", err)
	}
	fl, _ := check(h)
	return fl
}

func TestReplay(t *testing.T) { harness.RunReplay(t) }
