// C05 - date bounds and the Years scale agree with the calendar.
// Exhaustive over all 3,652,059 days, 119,988 month-year and 9,999 year-only dates
// (DESIGN.md 6.5). Oracle: integer calendar R2 with time.Date as second witness.
package c05

import (
	"encoding/json"
	"fmt"
	"testing"
	"time"

	"github.com/elliotchance/gedcom/v39"
	"pgregory.net/rapid"

	"verif/internal/harness"
	"verif/internal/ref"
)

func TestMain(m *testing.M) { harness.Main(m, "C05") }

type dateCase struct {
	Kind string `json:"kind"` // day | month | year
	Y    int    `json:"y"`
	M    int    `json:"m,omitempty"`
	D    int    `json:"d,omitempty"`
	// Route "struct" builds gedcom.Date values directly, "text" parses the
	// canonical spelling with NewDateRangeWithString.
	Route string `json:"route"`
}

var monthAbbr = []string{"", "Jan", "Feb", "Mar", "Apr", "May", "Jun", "Jul", "Aug", "Sep", "Oct", "Nov", "Dec"}

func (c dateCase) text() string {
	switch c.Kind {
	case "day":
		return fmt.Sprintf("%d %s %d", c.D, monthAbbr[c.M], c.Y)
	case "month":
		return fmt.Sprintf("%s %d", monthAbbr[c.M], c.Y)
	}
	return fmt.Sprintf("%d", c.Y)
}

func (c dateCase) rng() gedcom.DateRange {
	if c.Route == "text" {
		return gedcom.NewDateRangeWithString(c.text())
	}
	d := gedcom.Date{Day: c.D, Month: time.Month(c.M), Year: c.Y}
	return gedcom.NewDateRange(d, d)
}

// period returns first and last calendar day of the period the case denotes.
func (c dateCase) period() (y1, m1, d1, y2, m2, d2 int) {
	switch c.Kind {
	case "day":
		return c.Y, c.M, c.D, c.Y, c.M, c.D
	case "month":
		return c.Y, c.M, 1, c.Y, c.M, ref.DaysIn(c.Y, c.M)
	}
	return c.Y, 1, 1, c.Y, 12, 31
}

// checkBounds is the bounds oracle for one date.
func checkBounds(c dateCase) *harness.Failure {
	r := c.rng()
	if !r.IsValid() {
		return harness.Failf("valid-date-invalid", "%s (%s): range is not valid", c.text(), c.Route)
	}
	y1, m1, d1, y2, m2, d2 := c.period()
	wantStart := time.Date(y1, time.Month(m1), d1, 0, 0, 0, 0, time.UTC)
	wantEnd := time.Date(y2, time.Month(m2), d2+1, 0, 0, 0, 0, time.UTC).Add(-time.Nanosecond)
	// second witness for the first: civil day arithmetic
	days := ref.CivilDay(y2, m2, d2) - ref.CivilDay(y1, m1, d1) + 1
	if got := wantEnd.Sub(wantStart) + time.Nanosecond; got != time.Duration(days)*24*time.Hour {
		return harness.Failf("oracle-disagreement", "time.Date and R2 disagree on %s: %v vs %d days", c.text(), got, days)
	}
	start, end := r.StartDate().Time(), r.EndDate().Time()
	if !start.Equal(wantStart) || start.Location() != time.UTC {
		return harness.Failf("start-bound", "%s (%s): start bound %v, want %v", c.text(), c.Route, start, wantStart)
	}
	if !end.Equal(wantEnd) {
		return harness.Failf("end-bound", "%s (%s): end bound %v, want %v", c.text(), c.Route, end, wantEnd)
	}
	if end.Before(start) {
		return harness.Failf("start-after-end", "%s: start %v > end %v", c.text(), start, end)
	}
	if got := r.Duration().Duration + time.Nanosecond; got != time.Duration(days)*24*time.Hour {
		return harness.Failf("duration", "%s (%s): Duration()+1ns = %v, want %d days", c.text(), c.Route, got, days)
	}
	// the fractional-year value lies inside the period it describes
	ys, ye := r.StartDate().Years(), r.EndDate().Years()
	if ys != ye {
		return harness.Failf("years-start-end-differ", "%s: Years of start %v and of end %v differ", c.text(), ys, ye)
	}
	first := gedcom.Date{Day: d1, Month: time.Month(m1), Year: y1}.Years()
	last := gedcom.Date{Day: d2, Month: time.Month(m2), Year: y2}.Years()
	if !(first <= ys && ys <= last) {
		return harness.Failf("years-outside-period", "%s: Years %v not within [%v, %v] of its first and last day", c.text(), ys, first, last)
	}
	if !(float64(c.Y) <= ys && ys < float64(c.Y+1)) {
		return harness.Failf("years-outside-year", "%s: Years %v not within [%d, %d)", c.text(), ys, c.Y, c.Y+1)
	}
	if r.Years() != ys {
		return harness.Failf("range-years", "%s: DateRange.Years %v != Date.Years %v", c.text(), r.Years(), ys)
	}
	return nil
}

type pairCase struct {
	A [3]int `json:"a"` // y, m, d
	B [3]int `json:"b"`
}

func day(a [3]int) gedcom.Date { return gedcom.Date{Day: a[2], Month: time.Month(a[1]), Year: a[0]} }

// checkOrder: Years, IsBefore, IsAfter agree with calendar order for two days.
func checkOrder(p pairCase) *harness.Failure {
	ca, cb := ref.CivilDay(p.A[0], p.A[1], p.A[2]), ref.CivilDay(p.B[0], p.B[1], p.B[2])
	a, b := day(p.A), day(p.B)
	ya, yb := a.Years(), b.Years()
	switch {
	case ca < cb:
		if !(ya < yb) {
			return harness.Failf("years-not-increasing", "Years(%v)=%v is not < Years(%v)=%v", p.A, ya, p.B, yb)
		}
	case ca > cb:
		if !(ya > yb) {
			return harness.Failf("years-not-increasing", "Years(%v)=%v is not > Years(%v)=%v", p.A, ya, p.B, yb)
		}
	default:
		if ya != yb {
			return harness.Failf("years-not-function", "Years(%v) gives %v and %v", p.A, ya, yb)
		}
	}
	if a.IsBefore(b) != (ca < cb) || b.IsAfter(a) != (ca < cb) {
		return harness.Failf("is-before", "%v IsBefore %v = %v, %v IsAfter %v = %v, calendar says %v", p.A, p.B, a.IsBefore(b), p.B, p.A, b.IsAfter(a), ca < cb)
	}
	if a.IsAfter(b) != (ca > cb) || b.IsBefore(a) != (ca > cb) {
		return harness.Failf("is-after", "%v IsAfter %v = %v, %v IsBefore %v = %v, calendar says %v", p.A, p.B, a.IsAfter(b), p.B, p.A, b.IsBefore(a), ca > cb)
	}
	ra, rb := gedcom.NewDateRange(a, a), gedcom.NewDateRange(b, b)
	if ra.IsBefore(rb) != (ca < cb) || ra.IsAfter(rb) != (ca > cb) {
		return harness.Failf("range-is-before", "DateRange %v IsBefore/IsAfter %v = %v/%v", p.A, p.B, ra.IsBefore(rb), ra.IsAfter(rb))
	}
	return nil
}

func TestCheckExhaustive(t *testing.T) {
	days := harness.NewSub("days-exhaustive",
		"every calendar day 0001-01-01..9999-12-31 as start and end bound (struct route; text route for every day in thorough, every 5th day plus month ends in quick) and every successive pair (d, d+1); all are distinct and non-trivial by construction")
	months := harness.NewSub("months-exhaustive", "every month-year date of years 1..9999 (struct and text route): bounds, true length, Years within first..last day")
	years := harness.NewSub("years-exhaustive", "every year-only date 1..9999 (struct and text route): bounds, true length, Years within first..last day")
	days.SetExhaustive(true)
	months.SetExhaustive(true)
	years.SetExhaustive(true)
	shard, n := harness.Shard(), harness.NShards()
	for y := 1; y <= 9999; y++ {
		if (y-1)%n != shard {
			continue
		}
		prev := [3]int{0, 0, 0}
		if y > 1 {
			prev = [3]int{y - 1, 12, 31}
		}
		cls := "ordinary-year"
		if ref.IsLeap(y) {
			cls = "leap-year"
		} else if y%100 == 0 {
			cls = "century-non-leap"
		}
		var nd, np int64
		for m := 1; m <= 12; m++ {
			for d := 1; d <= ref.DaysIn(y, m); d++ {
				c := dateCase{Kind: "day", Y: y, M: m, D: d, Route: "struct"}
				if f := checkBounds(c); f != nil && days.Report(c, f) {
					continue
				}
				nd++
				if harness.Thorough() || d%5 == 0 || d == 1 || d >= 28 {
					c.Route = "text"
					if f := checkBounds(c); f != nil {
						days.Report(c, f)
					}
					nd++
				}
				cur := [3]int{y, m, d}
				if prev[0] != 0 {
					p := pairCase{A: prev, B: cur}
					if f := checkOrder(p); f != nil {
						days.Report(p, f)
					}
					np++
				}
				prev = cur
			}
			for _, route := range []string{"struct", "text"} {
				c := dateCase{Kind: "month", Y: y, M: m, Route: route}
				if f := checkBounds(c); f != nil {
					months.Report(c, f)
				}
				months.EvalN(1, 1, cls)
				if y%1000 == 1 && m == 2 {
					months.Sample(c)
				}
			}
		}
		for _, route := range []string{"struct", "text"} {
			c := dateCase{Kind: "year", Y: y, Route: route}
			if f := checkBounds(c); f != nil {
				years.Report(c, f)
			}
			years.EvalN(1, 1, cls)
			if y%2000 == 1 {
				years.Sample(c)
			}
		}
		days.EvalN(nd+np, nd+np, cls)
		days.Class("successive-pairs", np)
		if y%1500 == 1 || y == 9999 {
			days.Sample(dateCase{Kind: "day", Y: y, M: 12, D: 31, Route: "struct"})
		}
	}
}

func genDay(t *rapid.T, label string) [3]int {
	// bias towards boundaries: year ends, leap days, year 1 and 9999
	y := rapid.OneOf(rapid.IntRange(1, 9999), rapid.SampledFrom([]int{1, 2, 4, 100, 400, 1582, 1600, 1900, 2000, 9998, 9999})).Draw(t, label+"y")
	m := rapid.OneOf(rapid.IntRange(1, 12), rapid.SampledFrom([]int{1, 2, 12})).Draw(t, label+"m")
	d := rapid.IntRange(1, ref.DaysIn(y, m)).Draw(t, label+"d")
	return [3]int{y, m, d}
}

type listCase struct {
	Days [][3]int `json:"days"`
}

// checkMinMax: DateNodes.Minimum/Maximum return the calendar-first/last day.
func checkMinMax(c listCase) *harness.Failure {
	var nodes gedcom.DateNodes
	minI, maxI := 0, 0
	for i, d := range c.Days {
		nodes = append(nodes, gedcom.NewDateNode(fmt.Sprintf("%d %s %d", d[2], monthAbbr[d[1]], d[0])))
		if ref.CivilDay(d[0], d[1], d[2]) < ref.CivilDay(c.Days[minI][0], c.Days[minI][1], c.Days[minI][2]) {
			minI = i
		}
		if ref.CivilDay(d[0], d[1], d[2]) > ref.CivilDay(c.Days[maxI][0], c.Days[maxI][1], c.Days[maxI][2]) {
			maxI = i
		}
	}
	if got := nodes.Minimum(); got != nodes[minI] {
		return harness.Failf("minimum", "Minimum of %v is %q, want %q", c.Days, got.Value(), nodes[minI].Value())
	}
	if got := nodes.Maximum(); got != nodes[maxI] {
		return harness.Failf("maximum", "Maximum of %v is %q, want %q", c.Days, got.Value(), nodes[maxI].Value())
	}
	return nil
}

// ---- before/after between dates of different granularity ----------------------------------------

type orderCase struct {
	A [3]int `json:"a"` // year, month (0 = none), day (0 = none)
	B [3]int `json:"b"`
}

// checkMixedOrder: "the fractional-year value used for ordering ... and before/after comparisons":
// for any two dates, whatever their granularity, IsBefore and IsAfter say what the order of
// their Years values says (at Date, DateRange-less DateNode level alike).
func checkMixedOrder(c orderCase) *harness.Failure {
	a, b := day(c.A), day(c.B)
	ya, yb := a.Years(), b.Years()
	if got, want := a.IsBefore(b), ya < yb; got != want {
		return harness.Failf("before-disagrees-with-years", "%s.IsBefore(%s) = %v, Years are %v and %v", a, b, got, ya, yb)
	}
	if got, want := a.IsAfter(b), ya > yb; got != want {
		return harness.Failf("after-disagrees-with-years", "%s.IsAfter(%s) = %v, Years are %v and %v", a, b, got, ya, yb)
	}
	na, nb := gedcom.NewDateNode(a.String()), gedcom.NewDateNode(b.String())
	if na.IsValid() && nb.IsValid() {
		if got, want := na.IsBefore(nb), na.Years() < nb.Years(); got != want {
			return harness.Failf("node-before-disagrees-with-years", "DateNode %q IsBefore %q = %v, Years are %v and %v", a.String(), b.String(), got, na.Years(), nb.Years())
		}
		if got, want := na.IsAfter(nb), na.Years() > nb.Years(); got != want {
			return harness.Failf("node-after-disagrees-with-years", "DateNode %q IsAfter %q = %v, Years are %v and %v", a.String(), b.String(), got, na.Years(), nb.Years())
		}
	}
	return nil
}

func TestCheckOrderMixedGranularity(t *testing.T) {
	s := harness.NewSub("order-of-mixed-granularity",
		"every ordered pair of dates of any granularity (year, month-year, full day) inside the years 1899..1901 and 1999..2000 (thorough: also 1, 2, 9998, 9999): IsBefore and IsAfter agree with the order of the Years values, for Date and for DateNode; non-trivial = the two dates have different granularity")
	s.SetExhaustive(true)
	years := []int{1899, 1900, 1901, 1999, 2000}
	if harness.Thorough() {
		years = append(years, 1, 2, 9998, 9999)
	}
	var all [][3]int
	for _, y := range years {
		all = append(all, [3]int{y, 0, 0})
		for m := 1; m <= 12; m++ {
			all = append(all, [3]int{y, m, 0})
			for d := 1; d <= ref.DaysIn(y, m); d += 3 {
				all = append(all, [3]int{y, m, d})
			}
			all = append(all, [3]int{y, m, ref.DaysIn(y, m)})
		}
	}
	shard, ns := harness.Shard(), harness.NShards()
	gran := func(x [3]int) int {
		switch {
		case x[1] == 0:
			return 0
		case x[2] == 0:
			return 1
		}
		return 2
	}
	for i, a := range all {
		if i%ns != shard {
			continue
		}
		var n, nt int64
		for _, b := range all {
			if gran(a) == 2 && gran(b) == 2 && (a[0] != b[0] || a[1] != b[1]) {
				continue // day against day in another month: the other sub-checks own that
			}
			c := orderCase{A: a, B: b}
			n++
			if gran(a) != gran(b) {
				nt++
			}
			if fl := checkMixedOrder(c); fl != nil {
				s.Report(c, fl)
			}
		}
		s.EvalN(n, nt)
		if i%97 == 3 {
			s.Sample(orderCase{A: a, B: all[(i*7)%len(all)]})
		}
	}
}

func init() {
	harness.RegisterReplay("order-of-mixed-granularity", func(raw json.RawMessage) *harness.Failure {
		var c orderCase
		if err := json.Unmarshal(raw, &c); err != nil {
			return harness.Failf("bad-replay", "%v", err)
		}
		return checkMixedOrder(c)
	})
}

func TestCheckRandom(t *testing.T) {
	pairs := harness.NewSub("random-day-pairs", "random pairs of days over years 1..9999, biased to year ends and leap days: Years/IsBefore/IsAfter agree with civil-day order; non-trivial = the two days differ")
	pairs.Rapid(t, harness.Share(harness.Pick(200000, 60000000)), 1, func(rt *rapid.T) {
		p := pairCase{A: genDay(rt, "a"), B: genDay(rt, "b")}
		cls := "different-year"
		if p.A[0] == p.B[0] {
			cls = "same-year"
			if p.A[1] == p.B[1] {
				cls = "same-month"
			}
		}
		pairs.Eval(harness.JSON(p), p.A != p.B, cls)
		pairs.MaybeSample(p)
		if f := checkOrder(p); f != nil && pairs.Report(p, f) {
			rt.Fatalf("%s", f.Msg)
		}
	})
	lists := harness.NewSub("min-max-lists", "random lists of 1..8 day dates as DateNodes: Minimum/Maximum return the first node with the calendar-smallest/largest day; non-trivial = at least 2 distinct days")
	lists.Rapid(t, harness.Share(harness.Pick(20000, 5000000)), 2, func(rt *rapid.T) {
		n := rapid.IntRange(1, 8).Draw(rt, "n")
		c := listCase{}
		for i := 0; i < n; i++ {
			c.Days = append(c.Days, genDay(rt, fmt.Sprintf("d%d", i)))
		}
		distinct := map[[3]int]bool{}
		for _, d := range c.Days {
			distinct[d] = true
		}
		cls := "all-distinct"
		if len(distinct) < len(c.Days) {
			cls = "with-ties"
		}
		lists.Eval(harness.JSON(c), len(distinct) >= 2, cls)
		lists.MaybeSample(c)
		if f := checkMinMax(c); f != nil && lists.Report(c, f) {
			rt.Fatalf("%s", f.Msg)
		}
	})
}

func init() {
	harness.Assume("Go standard library time.Date and integer Gregorian calendar (internal/ref/calendar.go) as independent witnesses",
		"only years 1..9999, the range the property and the Date documentation name")
	harness.RegisterReplay("days-exhaustive", func(raw json.RawMessage) *harness.Failure {
		var probe map[string]json.RawMessage
		_ = json.Unmarshal(raw, &probe)
		if _, ok := probe["a"]; ok {
			var p pairCase
			_ = json.Unmarshal(raw, &p)
			return checkOrder(p)
		}
		var c dateCase
		_ = json.Unmarshal(raw, &c)
		return checkBounds(c)
	})
	bounds := func(raw json.RawMessage) *harness.Failure {
		var c dateCase
		_ = json.Unmarshal(raw, &c)
		return checkBounds(c)
	}
	harness.RegisterReplay("months-exhaustive", bounds)
	harness.RegisterReplay("years-exhaustive", bounds)
	harness.RegisterReplay("random-day-pairs", func(raw json.RawMessage) *harness.Failure {
		var p pairCase
		_ = json.Unmarshal(raw, &p)
		return checkOrder(p)
	})
	harness.RegisterReplay("min-max-lists", func(raw json.RawMessage) *harness.Failure {
		var c listCase
		_ = json.Unmarshal(raw, &c)
		return checkMinMax(c)
	})
}

func TestReplay(t *testing.T) { harness.RunReplay(t) }
