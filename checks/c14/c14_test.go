// C14 - no command crashes on a file the decoder accepts (DESIGN.md 6.14).
// Main route: the built gedcom binary on generated files (process isolation comes
// for free and exit status / stderr are the property's own observation points).
package c14

import (
	"context"
	"encoding/json"
	"fmt"
	"github.com/elliotchance/gedcom/v39/html"
	"io"
	"os"
	"os/exec"
	"path/filepath"
	"regexp"
	"strings"
	"testing"
	"time"

	"github.com/elliotchance/gedcom/v39"
	"pgregory.net/rapid"

	"verif/internal/gen"
	"verif/internal/harness"
	"verif/internal/pub"
)

func TestMain(m *testing.M) { harness.Main(m, "C14") }

type cmdCase struct {
	Doc    *gen.GraphBP `json:"doc"`
	Faults []string     `json:"faults"`
	// Args of the gedcom binary; {in} {in2} {out} {outdir} are replaced.
	Args []string `json:"args"`
}

// ---- structural faults --------------------------------------------------------------

var faultKinds = []string{"dangling-ref", "wrong-kind-ref", "empty-role-value", "no-name", "name-without-surname", "self-parent", "self-spouse",
	"duplicate-pointer", "person-family-same-pointer", "empty-family", "source-without-title", "odd-dates", "odd-surname", "cyclic-parents",
	"dangling-fams-famc", "duplicate-child", "empty-name", "person-sour-ref", "no-people", "nested-oddities", "name-like-place", "odd-identifiers"}

var oddDates = []string{"", "(phrase)", "Bet. 1950 and 1900", "0", "99999", "31 Feb 1900", "Abt.", "Bef. garbage", "1 Jan 0001", "31 Dec 9999", "from to", "Bet. and", "3 Sep 1943 ", "١٩٤٣", "-5", "1e9", "32 13 1900"}
var oddNames = []string{"/9lives/", "/Écrivain/", "/#hash/", "/ /", "//", "/'quoted'/", "/李/", "John", "/", "John //", "   ", "/-/", "John /Smith/ /Jones/", "\"", "/&amp;/", "/ÿ/", "/\xff\xfe/", "/.../", "/0/"}

func applyFault(rt *rapid.T, g *gen.GraphBP, kind string) {
	person := func(label string) *gen.PersonBP {
		if len(g.People) == 0 {
			g.People = append(g.People, &gen.PersonBP{ID: "I1", Names: []gen.Str{"Only /Person/"}})
		}
		return g.People[rapid.IntRange(0, len(g.People)-1).Draw(rt, label)]
	}
	fam := func(label string) *gen.FamilyBP {
		if len(g.Families) == 0 {
			g.Families = append(g.Families, &gen.FamilyBP{ID: "F1"})
		}
		return g.Families[rapid.IntRange(0, len(g.Families)-1).Draw(rt, label)]
	}
	setRole := func(f *gen.FamilyBP, v string, label string) {
		switch rapid.IntRange(0, 2).Draw(rt, label) {
		case 0:
			f.Husb, f.HasHusb = v, true
		case 1:
			f.Wife, f.HasWife = v, true
		default:
			f.Children = append(f.Children, v)
		}
	}
	switch kind {
	case "dangling-ref":
		setRole(fam("f"), "ZZ9", "role")
	case "wrong-kind-ref":
		f := fam("f")
		target := rapid.SampledFrom([]string{f.ID, "S1", "F1", "NOTE1"}).Draw(rt, "target")
		if target == "NOTE1" {
			g.Sources = append(g.Sources, &gen.SourceBP{ID: "NOTE1", Title: "a source called NOTE1"})
		}
		if target == "S1" {
			g.Sources = append(g.Sources, &gen.SourceBP{ID: "S1", Title: "Source one"})
		}
		setRole(f, target, "role")
	case "empty-role-value":
		f := fam("f")
		switch rapid.IntRange(0, 2).Draw(rt, "role") {
		case 0:
			f.Husb, f.HasHusb = "", true
		case 1:
			f.Wife, f.HasWife = "", true
		default:
			f.More = append(f.More, &gen.NodeBP{Tag: "CHIL"})
		}
	case "no-name":
		person("p").Names = nil
	case "empty-name":
		person("p").Names = []gen.Str{""}
	case "name-without-surname", "odd-surname":
		person("p").Names = []gen.Str{gen.Str(rapid.SampledFrom(oddNames).Draw(rt, "oddname"))}
	case "self-parent":
		f, p := fam("f"), person("p")
		f.Husb = p.ID
		f.Children = append(f.Children, p.ID)
	case "self-spouse":
		f, p := fam("f"), person("p")
		f.Husb, f.Wife = p.ID, p.ID
	case "duplicate-pointer":
		p := person("p")
		g.People = append(g.People, &gen.PersonBP{ID: p.ID, Names: []gen.Str{"Duplicate /Pointer/"}})
	case "person-family-same-pointer":
		p := person("p")
		g.Families = append(g.Families, &gen.FamilyBP{ID: p.ID, Husb: p.ID})
	case "empty-family":
		g.Families = append(g.Families, &gen.FamilyBP{ID: fmt.Sprintf("FE%d", len(g.Families))})
	case "source-without-title":
		g.Sources = append(g.Sources, &gen.SourceBP{ID: fmt.Sprintf("SX%d", len(g.Sources))})
	case "person-sour-ref":
		p := person("p")
		p.More = append(p.More, &gen.NodeBP{Tag: "SOUR", Value: gen.Str(rapid.SampledFrom([]string{"@S1@", "@nothing@", "", "inline source"}).Draw(rt, "sour"))})
	case "odd-dates":
		p := person("p")
		d := gen.Str(rapid.SampledFrom(oddDates).Draw(rt, "odddate"))
		tag := rapid.SampledFrom([]string{"BIRT", "DEAT", "BAPM", "BURI", "RESI", "EVEN"}).Draw(rt, "dtag")
		p.Events = append(p.Events, gen.EventBP{Tag: tag, Date: d, HasDate: true})
		if len(g.Families) > 0 && rapid.Bool().Draw(rt, "famdate") {
			f := fam("f")
			f.Events = append(f.Events, gen.EventBP{Tag: "MARR", Date: d, HasDate: true})
		}
	case "cyclic-parents":
		a, b := person("a"), person("b")
		g.Families = append(g.Families, &gen.FamilyBP{ID: fmt.Sprintf("FC%d", len(g.Families)), Husb: a.ID, Children: []string{b.ID}},
			&gen.FamilyBP{ID: fmt.Sprintf("FD%d", len(g.Families)), Wife: b.ID, Children: []string{a.ID}})
	case "dangling-fams-famc":
		p := person("p")
		p.More = append(p.More, &gen.NodeBP{Tag: rapid.SampledFrom([]string{"FAMS", "FAMC"}).Draw(rt, "fx"), Value: gen.Str(rapid.SampledFrom([]string{"@F99@", "", "@" + p.ID + "@"}).Draw(rt, "fxv"))})
	case "duplicate-child":
		f, p := fam("f"), person("p")
		f.Children = append(f.Children, p.ID, p.ID)
	case "name-like-place":
		// a person whose whole name reads like a place of the file (the page keys of people and
		// places share one namespace), or people and places written without any Latin letter
		pair := rapid.SampledFrom([][2]string{{"Paris", "Paris"}, {"/Paris/", "Paris"}, {"李 /王/", "北京"}, {"/-/", "!!!"}, {"John /Smith/", "John Smith"},
			{"Places", "places"}, {"Иван /Иванов/", "Москва"}, {"Sydney /Australia/", "Sydney, Australia"}, {"//", "(none)"}, {"", ""}}).Draw(rt, "pair")
		p := person("p")
		p.Names = []gen.Str{gen.Str(pair[0])}
		q := person("q")
		q.Events = append(q.Events, gen.EventBP{Tag: rapid.SampledFrom([]string{"BIRT", "DEAT", "RESI"}).Draw(rt, "ptag"), Place: gen.Str(pair[1]), Date: "1850", HasDate: true})
	case "odd-identifiers":
		// source and record pointers that are not plain identifiers
		g.Sources = append(g.Sources, &gen.SourceBP{ID: rapid.SampledFrom([]string{"../x", "a/b", "places", "S 1", "x.html", "%2e", "-", "Zoë"}).Draw(rt, "sid"), Title: "odd pointer"})
	case "no-people":
		g.People = nil
	case "nested-oddities":
		p := person("p")
		p.More = append(p.More,
			&gen.NodeBP{Tag: "NAME", Kids: []*gen.NodeBP{{Tag: "GIVN"}, {Tag: "SURN"}, {Tag: "NICK"}}},
			&gen.NodeBP{Tag: "BIRT", Kids: []*gen.NodeBP{{Tag: "PLAC"}, {Tag: "PLAC", Value: ",,,"}, {Tag: "DATE"}, {Tag: "SOUR", Value: "@S1@"}}},
			&gen.NodeBP{Tag: "SEX", Value: gen.Str(rapid.SampledFrom([]string{"", "X", "MF"}).Draw(rt, "sexv"))},
			&gen.NodeBP{Tag: "_UID", Value: "x"}, &gen.NodeBP{Tag: "_FID"}, &gen.NodeBP{Tag: "DEAT", Value: "Y"})
	}
}

func genDoc(rt *rapid.T) (*gen.GraphBP, []string) {
	g := gen.Graph(gen.GraphOpts{MaxPeople: 6, MaxFamilies: 3, WildDates: true, UIDs: true, Sources: true, Big: 120, BigLo: 25, BigHi: 50}).Draw(rt, "doc")
	n := rapid.IntRange(0, harness.Pick(3, 5)).Draw(rt, "nfaults")
	var faults []string
	for i := 0; i < n; i++ {
		k := rapid.SampledFrom(faultKinds).Draw(rt, "fault")
		faults = append(faults, k)
		applyFault(rt, g, k)
	}
	return g, faults
}

// ---- commands -----------------------------------------------------------------------

var exampleQueries = []string{
	`.Individuals | .Name | .String`,
	`.Individuals | NodesWithTagPath("DEAT")`,
	`.Individuals | NodesWithTagPath("BIRT", "DATE")`,
	`Births are .Individuals | NodesWithTagPath("BIRT", "DATE") | {type: "birth", date: .String}; Deaths are .Individuals | NodesWithTagPath("DEAT", "DATE") | {type: "death", date: .String}; Combine(Births, Deaths)`,
	`.Individuals | Only(.Age > 100)`,
	`.Individuals | ?`,
	`Names are .Individuals | .Name; Names | .String`,
	`.Individuals | { name: .Name | .String, born: .Birth | .String }`,
	`.Individuals | {}`,
	`.Individuals | Length`,
	`.Individuals | First(3) | { name: .Name | .String, born: .Birth | .String, died: .Death | .String}`,
	`.Individuals | .Name | Only(.GivenName = "John") | .String`,
	`.Families | { husband: .Husband | .String, wife: .Wife | .String, children: .Children | Length }`,
	`.Individuals | { spouses: .Spouses | Length, parents: .Parents | Length, living: .IsLiving }`,
	`.Individuals | .SpouseChildren`,
	`.Families | .Children | .Individuals`,
	`.Warnings | .String`,
	`.Sources`,
	`.Places`,
	`.Individuals | Last(2) | .EstimatedBirthDate`,
}

func allCommands() [][]string {
	var cmds [][]string
	cmds = append(cmds, []string{"warnings", "{in}"})
	for _, vis := range []string{"show", "hide", "placeholder"} {
		cmds = append(cmds, []string{"publish", "-gedcom", "{in}", "-output-dir", "{outdir}", "-living", vis})
		for _, no := range []string{"-no-individuals", "-no-places", "-no-families", "-no-surnames", "-no-sources", "-no-statistics"} {
			cmds = append(cmds, []string{"publish", "-gedcom", "{in}", "-output-dir", "{outdir}", "-living", vis, no, "-jobs", "2"})
		}
		cmds = append(cmds, []string{"publish", "-gedcom", "{in}", "-output-dir", "{outdir}", "-living", vis, "-no-individuals", "-no-places", "-no-families", "-no-surnames", "-no-sources"})
		// an output directory that does not exist: every write fails, for every worker ("terminate
		// with output or an error message")
		for _, jobs := range []string{"1", "3", "8"} {
			cmds = append(cmds, []string{"publish", "-gedcom", "{in}", "-output-dir", "{outdir}/missing/deeper", "-living", vis, "-jobs", jobs})
		}
	}
	for _, show := range []string{"all", "only-matches", "subset"} {
		for _, sort := range []string{"written-name", "highest-similarity"} {
			cmds = append(cmds, []string{"diff", "-left-gedcom", "{in}", "-right-gedcom", "{in2}", "-output", "{out}", "-show", show, "-sort", sort, "-jobs", "2"})
		}
	}
	cmds = append(cmds, []string{"diff", "-left-gedcom", "{in}", "-right-gedcom", "{in}", "-output", "{out}", "-minimum-weighted-similarity", "0", "-prefer-pointer-above", "0"})
	cmds = append(cmds, []string{"diff", "-left-gedcom", "{in2}", "-right-gedcom", "{in}", "-output", "{out}", "-hide-equal", "-only-vitals"})
	formats := []string{"json", "pretty-json", "csv", "gedcom", "html"}
	for i, q := range exampleQueries {
		cmds = append(cmds, []string{"query", "-gedcom", "{in}", "-format", formats[i%len(formats)], q})
		cmds = append(cmds, []string{"query", "-gedcom", "{in}", "-format", formats[(i+2)%len(formats)], q})
	}
	cmds = append(cmds, []string{"query", "-gedcom", "{in}", "-gedcom", "{in2}", "-format", "gedcom", "MergeDocumentsAndIndividuals(Document1, Document2)"})
	cmds = append(cmds, []string{"query", "-gedcom", "{in}", "-gedcom", "{in2}", "Document2 | .Individuals | .Name | .String"})
	return cmds
}

const otherDoc = "0 HEAD\n0 @I1@ INDI\n1 NAME John /Smith/\n1 BIRT\n2 DATE 3 Sep 1943\n1 FAMS @F1@\n0 @I2@ INDI\n1 NAME Jane /Doe/\n0 @X9@ INDI\n1 NAME Other /Person/\n1 DEAT\n2 DATE 1990\n0 @F1@ FAM\n1 HUSB @I1@\n1 WIFE @I2@\n1 CHIL @X9@\n0 TRLR\n"

var crashLine = regexp.MustCompile(`(?m)^(panic: .*|fatal error: .*)$`)
var frameRe = regexp.MustCompile(`(?m)^(github\.com/elliotchance/gedcom/v39\S*|main\.\S*)\(`)

func crashSignature(out string) string {
	m := crashLine.FindString(out)
	m = regexp.MustCompile(`0x[0-9a-f]+`).ReplaceAllString(m, "0x?")
	m = regexp.MustCompile(`\[recovered\]`).ReplaceAllString(m, "")
	m = regexp.MustCompile(`[0-9]+`).ReplaceAllString(m, "N")
	fn := "?"
	if i := strings.Index(out, m[:min(len(m), 10)]); i >= 0 {
		if f := frameRe.FindStringSubmatch(out[i:]); f != nil {
			fn = strings.TrimPrefix(f[1], "github.com/elliotchance/gedcom/v39")
		}
	}
	if len(m) > 70 {
		m = m[:70]
	}
	return strings.ReplaceAll(strings.TrimSpace(m), " ", "_") + "@" + fn
}

const hangTimeout = 20 * time.Second

// hangSeen stops the campaign of this process after the first confirmed hang:
// every further invocation on a hanging tree would cost two timeouts.
var hangSeen bool

type env struct {
	cli, dir string
}

func (e env) run(c cmdCase) (fl *harness.Failure, outcome string) {
	in, in2, out, outdir := filepath.Join(e.dir, "in.ged"), filepath.Join(e.dir, "in2.ged"), filepath.Join(e.dir, "out.html"), filepath.Join(e.dir, "site")
	text := c.Doc.Text()
	if _, err := gedcom.NewDocumentFromString(text); err != nil {
		return nil, "not-decodable" // premise: the decoder accepts the file
	}
	_ = os.WriteFile(in, []byte(text), 0o644)
	_ = os.WriteFile(in2, []byte(otherDoc), 0o644)
	_ = os.RemoveAll(outdir)
	_ = os.MkdirAll(outdir, 0o755)
	args := make([]string, len(c.Args))
	for i, a := range c.Args {
		a = strings.ReplaceAll(a, "{in2}", in2)
		a = strings.ReplaceAll(a, "{in}", in)
		a = strings.ReplaceAll(a, "{outdir}", outdir)
		a = strings.ReplaceAll(a, "{out}", out)
		args[i] = a
	}
	for attempt := 0; ; attempt++ {
		ctx, cancel := context.WithTimeout(context.Background(), hangTimeout)
		cmd := exec.CommandContext(ctx, e.cli, args...)
		cmd.Dir = e.dir
		b, err := cmd.CombinedOutput()
		timedOut := ctx.Err() == context.DeadlineExceeded
		cancel()
		o := string(b)
		switch {
		case timedOut:
			if attempt == 0 {
				continue // re-run alone once before calling it a hang
			}
			return harness.Failf("hang:"+c.Args[0], "gedcom %s did not terminate within 20 s (twice)\nfile:\n%s", strings.Join(c.Args, " "), text), "hang"
		case crashLine.MatchString(o) || exitedBySignalOrTwo(err):
			return harness.Failf("crash:"+crashSignature(o), "gedcom %s crashed:\n%s\nfile:\n%s", strings.Join(c.Args, " "), trunc(o, 2500), text), "crash"
		case err == nil:
			return nil, "exit-0"
		default:
			if ee, ok := err.(*exec.ExitError); ok && ee.ExitCode() == 1 && strings.Contains(o, "ERROR:") {
				return nil, "exit-1-with-error-message"
			}
			return harness.Failf("bad-exit:"+c.Args[0], "gedcom %s ended with %v and no ERROR: line:\n%s\nfile:\n%s", strings.Join(c.Args, " "), err, trunc(o, 1500), text), "bad-exit"
		}
	}
}

// exitedBySignalOrTwo: the Go runtime ends a crashing process with status 2 or a
// signal; the commands themselves only use 0 and 1.
func exitedBySignalOrTwo(err error) bool {
	ee, ok := err.(*exec.ExitError)
	if !ok {
		return false
	}
	return ee.ExitCode() == 2 || ee.ExitCode() < 0
}

func trunc(s string, n int) string {
	if len(s) > n {
		return s[:n] + "..."
	}
	return s
}

func TestCheckCLI(t *testing.T) {
	cli := os.Getenv("VERIF_CLI")
	if cli == "" {
		t.Skip("no CLI binary")
	}
	dir, err := os.MkdirTemp(os.Getenv("VERIF_SCRATCH"), "c14")
	if err != nil {
		t.Fatal(err)
	}
	defer os.RemoveAll(dir)
	e := env{cli, dir}
	cmds := allCommands()
	s := harness.NewSub("cli-on-faulted-files",
		fmt.Sprintf("random family graphs (wild dates, identifiers, sources) perturbed by 0..3 (thorough 0..5) structural faults from %d kinds (dangling / wrong-kind / empty HUSB-WIFE-CHIL, no or empty NAME, odd surnames incl. digits, symbols, multi-byte and invalid UTF-8, self-parent, self-spouse, cyclic parents, duplicate pointers, person and family sharing a pointer, empty family, source without title, odd dates, dangling FAMS/FAMC, duplicate child, no people, empty sub-records, a person named like a place of the file or people and places without any Latin letter, source pointers that are not plain identifiers); every file the decoder accepts is given to the built gedcom binary with a rotating third of %d command lines (warnings; publish x 3 visibilities x page-group switches x jobs, also into an output directory that does not exist; diff x show x sort; query x 20 documented-style queries x 5 formats; two-document queries); oracle: exit 0, or exit 1 with an ERROR: line; no panic / fatal error / goroutine dump; no hang; every distinct crash signature of a run is kept; non-trivial = at least one fault and two people", len(faultKinds), len(cmds)))
	s.Rapid(t, harness.Share(harness.Pick(1500, 50000)), 140, func(rt *rapid.T) {
		g, faults := genDoc(rt)
		offset := rapid.IntRange(0, 2).Draw(rt, "cmdOffset")
		nt := len(faults) >= 1 && len(g.People) >= 2
		for i := offset; i < len(cmds); i += 3 {
			c := cmdCase{Doc: g, Faults: faults, Args: cmds[i]}
			fl, outcome := e.run(c)
			cls := []string{"cmd:" + c.Args[0], "outcome:" + outcome}
			for _, f := range faults {
				cls = append(cls, "fault:"+f)
			}
			s.Eval(harness.JSON(c), nt && outcome != "not-decodable", cls...)
			if outcome == "not-decodable" {
				break
			}
			if nt {
				s.MaybeSample(c)
			}
			if fl != nil {
				s.Report(c, fl) // keep searching: one run collects every distinct signature
				if outcome == "hang" {
					hangSeen = true
				}
			}
			if hangSeen {
				break
			}
		}
		if hangSeen {
			rt.Fatalf("a command hangs; the campaign of this shard stops here")
		}
	})
}

// ---- library route: the traversals behind the commands, in process ------------------------

func libraryRun(g *gen.GraphBP) (fl *harness.Failure) {
	defer func() {
		if p := recover(); p != nil {
			sig := regexp.MustCompile(`[0-9]+`).ReplaceAllString(fmt.Sprint(p), "N")
			if len(sig) > 60 {
				sig = sig[:60]
			}
			fl = harness.Failf("library-panic:"+strings.ReplaceAll(sig, " ", "_"), "panic in a library traversal: %v\nfile:\n%s", p, g.Text())
		}
	}()
	doc, err := gedcom.NewDocumentFromString(g.Text())
	if err != nil {
		return nil
	}
	for _, w := range doc.Warnings() {
		_ = w.Name() + w.String() + w.Context().String()
	}
	for _, i := range doc.Individuals() {
		_ = i.String()
		_, _ = i.Age()
		_ = i.IsLiving()
		_ = i.Spouses()
		_ = i.SpouseChildren()
		_ = i.Children()
		_ = i.Parents()
		_ = i.Name().Format(gedcom.NameFormatIndex)
		_ = i.Name().Surname()
		_ = i.UniqueIdentifiers()
		for _, j := range doc.Individuals() {
			_ = i.SurroundingSimilarity(j, gedcom.NewSimilarityOptions(), true).WeightedSimilarity()
		}
	}
	for _, f := range doc.Families() {
		_ = f.String()
		_ = f.Children().Individuals()
		_ = f.Husband().Individual()
		_ = f.Wife().Individual()
		_ = f.Warnings()
	}
	_ = doc.Places()
	_ = doc.Sources()
	return nil
}

func TestCheckLibrary(t *testing.T) {
	s := harness.NewSub("library-traversals",
		"the same faulted documents through the library traversals behind the commands, in process (warnings with Name/String/Context, every individual accessor used by publish/diff incl. Age, SpouseChildren, name formats, full similarity matrix, family members, places, sources) an in-memory publish in all three visibility modes, and the diff report of one comparison rendered twice with every -show and -sort value; a recovered panic is a failure; non-trivial = at least one fault and two people")
	s.Rapid(t, harness.Share(harness.Pick(30000, 600000)), 141, func(rt *rapid.T) {
		g, faults := genDoc(rt)
		nt := len(faults) >= 1 && len(g.People) >= 2
		var cls []string
		for _, f := range faults {
			cls = append(cls, "fault:"+f)
		}
		c := cmdCase{Doc: g, Faults: faults, Args: []string{"library"}}
		s.Crumb(c)
		s.Eval(harness.JSON(c), nt, cls...)
		if nt {
			s.MaybeSample(c)
		}
		stop := s.Watchdog(30*time.Second, c, harness.Failf("hang:library", "a library traversal (warnings / accessors / similarity / publish) did not return within 30 s\nfile:\n%s", g.Text()))
		defer stop()
		if fl := libraryRun(g); fl != nil && s.Report(c, fl) {
			rt.Fatalf("%s: %s", fl.Sig, fl.Msg)
		}
		if fl := libraryPublish(g); fl != nil && s.Report(c, fl) {
			rt.Fatalf("%s: %s", fl.Sig, fl.Msg)
		}
	})
}

func libraryPublish(g *gen.GraphBP) *harness.Failure {
	doc, err := gedcom.NewDocumentFromString(g.Text())
	if err != nil {
		return nil
	}
	for _, vis := range []string{"show", "hide", "placeholder"} {
		res := pub.Publish(doc, pub.All(vis, 1))
		if res.Panic != "" {
			return harness.Failf("publish-panic:"+vis, "publishing (%s) panics: %s\nfile:\n%s", vis, res.Panic, g.Text())
		}
		if len(res.Panics) > 0 {
			sig := regexp.MustCompile(`[0-9]+`).ReplaceAllString(res.Panics[0], "N")
			if i := strings.Index(sig, ": "); i >= 0 {
				sig = sig[i+2:]
			}
			if len(sig) > 50 {
				sig = sig[:50]
			}
			return harness.Failf("render-panic:"+strings.ReplaceAll(sig, " ", "_"), "rendering a page (%s) panics: %v\nfile:\n%s", vis, res.Panics, g.Text())
		}
	}
	// the diff report of the file against the second file: one comparison, rendered with every
	// -show and -sort value one after the other (a panic in a goroutine the page starts itself
	// kills the process: the breadcrumb names the case)
	if len(g.Text())%8 != 3 {
		return nil // (an eighth of the cases: the report is the expensive part)
	}
	other, err := gedcom.NewDocumentFromString(otherDoc)
	if err != nil {
		return nil
	}
	var fl *harness.Failure
	func() {
		defer func() {
			if p := recover(); p != nil {
				sig := regexp.MustCompile(`[0-9]+`).ReplaceAllString(fmt.Sprint(p), "N")
				if len(sig) > 50 {
					sig = sig[:50]
				}
				fl = harness.Failf("render-panic:diff:"+strings.ReplaceAll(sig, " ", "_"), "rendering the diff report panics: %v\nfile:\n%s", p, g.Text())
			}
		}()
		comparisons := doc.Individuals().Compare(other.Individuals(), gedcom.NewIndividualNodesCompareOptions())
		for round := 0; round < 2; round++ {
			for _, show := range []string{html.DiffPageShowSubset, html.DiffPageShowOnlyMatches, html.DiffPageShowAll} {
				for _, sortBy := range []string{html.DiffPageSortWrittenName, html.DiffPageSortHighestSimilarity} {
					progress := make(chan gedcom.Progress, 1000000)
					page := html.NewDiffPage(comparisons, &gedcom.FilterFlags{}, "", show, sortBy, progress, gedcom.NewIndividualNodesCompareOptions(), html.LivingVisibilityShow)
					_, _ = page.WriteHTMLTo(io.Discard)
				}
			}
		}
	}()
	return fl
}

func init() {
	harness.Assume("premise: the decoder accepts the generated file (otherwise the case is counted as not-decodable and skipped)",
		"a command may end with exit status 1 only together with a line containing 'ERROR:' (log.Fatalln prefixes a timestamp)",
		"a 20 s timeout (commands normally take about 10 ms) is only reported as a hang when it repeats on a second run; a shard stops after its first confirmed hang",
		"a crash is a line starting with 'panic: ' or 'fatal error: ', or exit status 2 / death by signal; an ERROR: message that quotes the stack of a panic the query engine recovered is an error message",
		"'tune' is not in the statement's list and is not run",
		"the in-process publish only sees panics on the calling goroutine or inside the file writer; panics in goroutines the library starts kill the child and are reported from the breadcrumb")
	harness.RegisterReplay("cli-on-faulted-files", func(raw json.RawMessage) *harness.Failure {
		var c cmdCase
		if err := json.Unmarshal(raw, &c); err != nil {
			return harness.Failf("bad-replay", "%v", err)
		}
		cli := os.Getenv("VERIF_CLI")
		dir, err := os.MkdirTemp(os.Getenv("VERIF_SCRATCH"), "c14replay")
		if err != nil {
			return harness.Failf("infra", "%v", err)
		}
		defer os.RemoveAll(dir)
		fl, _ := env{cli, dir}.run(c)
		return fl
	})
	lib := func(raw json.RawMessage) *harness.Failure {
		var c cmdCase
		if err := json.Unmarshal(raw, &c); err != nil {
			return harness.Failf("bad-replay", "%v", err)
		}
		if fl := libraryRun(c.Doc); fl != nil {
			return fl
		}
		return libraryPublish(c.Doc)
	}
	harness.RegisterReplay("library-traversals", lib)
	harness.RegisterReplay("crash", lib)
}

func TestReplay(t *testing.T) { harness.RunReplay(t) }
