// C08 - a node diff accounts for every node and leaves its inputs alone (DESIGN.md 6.8).
package c08

import (
	"encoding/json"
	"fmt"
	"sync"
	"testing"

	"github.com/elliotchance/gedcom/v39"
	"pgregory.net/rapid"

	"verif/internal/gen"
	"verif/internal/harness"
	"verif/internal/tu"
)

func TestMain(m *testing.M) { harness.Main(m, "C08") }

type diffCase struct {
	Left  *gen.NodeBP `json:"left"`
	Right *gen.NodeBP `json:"right"`
	// Kind: independent | permuted-copy | leaves-inserted
	Kind string `json:"kind"`
	// Ops is the sequence of diff operations run after CompareNodes.
	Ops []string `json:"ops"`
}

func directional(trees ...*gen.NodeBP) bool {
	for _, t := range trees {
		found := false
		t.Walk(0, func(n *gen.NodeBP, _ int) {
			if n.Tag == "DATE" {
				r := gedcom.NewDateRangeWithString(string(n.Value))
				if r.IsValid() {
					for _, c := range []gedcom.DateConstraint{r.StartDate().Constraint, r.EndDate().Constraint} {
						if c == gedcom.DateConstraintBefore || c == gedcom.DateConstraintAfter {
							found = true
						}
					}
				}
			}
		})
		if found {
			return true
		}
	}
	return false
}

type depthSet map[gedcom.Node]int

func depths(root gedcom.Node) depthSet {
	d := depthSet{}
	tu.Walk(root, func(n gedcom.Node, k int) { d[n] = k })
	return d
}

// represents: entry e accounts for input node n and, below it, for n's subtree.
func represents(e *gedcom.NodeDiff, n gedcom.Node) (bool, gedcom.Node) {
	if !(e.Left == n || e.Right == n || tu.Equalish(e.Left, n) || tu.Equalish(e.Right, n)) {
		return false, n
	}
	for _, c := range n.Nodes() {
		ok := false
		var deepest gedcom.Node = c
		for _, ce := range e.Children {
			if r, miss := represents(ce, c); r {
				ok = true
				break
			} else if miss != c {
				deepest = miss
			}
		}
		if !ok {
			return false, deepest
		}
	}
	return true, nil
}

func walkDiff(e *gedcom.NodeDiff, depth int, fn func(e *gedcom.NodeDiff, depth int)) {
	fn(e, depth)
	for _, c := range e.Children {
		walkDiff(c, depth+1, fn)
	}
}

func check(c diffCase) (fl *harness.Failure) {
	defer func() {
		if p := recover(); p != nil {
			fl = harness.Failf("panic", "panic: %v", p)
		}
	}()
	_, left, _ := gen.BuildTree(c.Left.Clone())
	_, right, _ := gen.BuildTree(c.Right.Clone())
	switch c.Kind {
	case "same-instance":
		right = left
	case "shared-children":
		_, right, _ = gen.BuildTree(&gen.NodeBP{Tag: c.Left.Tag, Value: c.Left.Value, Pointer: c.Left.Pointer})
		kids := left.Nodes()
		for i := len(kids) - 1; i >= 0; i-- {
			right.AddNode(kids[i])
		}
	}
	leftText, rightText := tu.Text(left), tu.Text(right)
	leftCount, rightCount := tu.Count(left), tu.Count(right)
	ld, rd := depths(left), depths(right)
	dirSuffix := ""
	if directional(c.Left, c.Right) {
		dirSuffix = ":directional-dates"
	}
	deepEqual := gedcom.DeepEqual(left, right) && gedcom.DeepEqual(right, left)

	var diff *gedcom.NodeDiff
	pure := func(after string) *harness.Failure {
		if got := tu.Text(left); got != leftText {
			return harness.Failf("input-modified:"+after, "%s modified the left input:\n%s--- became\n%s", after, leftText, got)
		}
		if got := tu.Text(right); got != rightText {
			return harness.Failf("input-modified:"+after, "%s modified the right input:\n%s--- became\n%s", after, rightText, got)
		}
		if tu.Count(left) != leftCount || tu.Count(right) != rightCount {
			return harness.Failf("input-modified:"+after, "%s changed the node count of an input", after)
		}
		return nil
	}
	structure := func(after string) *harness.Failure {
		var f *harness.Failure
		walkDiff(diff, 0, func(e *gedcom.NodeDiff, depth int) {
			if f != nil {
				return
			}
			ln, rn := gedcom.IsNil(e.Left), gedcom.IsNil(e.Right)
			if ln && rn {
				f = harness.Failf("entry-both-absent", "after %s: diff entry at depth %d has neither side", after, depth)
				return
			}
			if !ln {
				if d, ok := ld[e.Left]; !ok || d != depth {
					f = harness.Failf("entry-left-foreign", "after %s: Left %s of an entry at depth %d is not a node of the left input at that depth (in right input: %v)", after, tu.Describe(e.Left), depth, rd[e.Left] == depth && has(rd, e.Left))
					return
				}
			}
			if !rn {
				if d, ok := rd[e.Right]; !ok || d != depth {
					f = harness.Failf("entry-right-foreign", "after %s: Right %s of an entry at depth %d is not a node of the right input at that depth", after, tu.Describe(e.Right), depth)
					return
				}
			}
		})
		if f != nil {
			return f
		}
		// IsDeepEqual is documented as: this entry and all entries below it are two-sided
		var twoSided func(e *gedcom.NodeDiff) bool
		twoSided = func(e *gedcom.NodeDiff) bool {
			if gedcom.IsNil(e.Left) || gedcom.IsNil(e.Right) {
				return false
			}
			for _, ce := range e.Children {
				if !twoSided(ce) {
					return false
				}
			}
			return true
		}
		walkDiff(diff, 0, func(e *gedcom.NodeDiff, depth int) {
			if f == nil && e.IsDeepEqual() != twoSided(e) {
				f = harness.Failf("isdeepequal-inconsistent", "after %s: IsDeepEqual()=%v for an entry at depth %d whose subtree is all-two-sided=%v:\n%s", after, e.IsDeepEqual(), depth, twoSided(e), e.String())
			}
		})
		if f != nil {
			return f
		}
		if diff.Left != left || diff.Right != right {
			return harness.Failf("root-entry", "after %s: root entry does not hold the two inputs", after)
		}
		if ok, miss := represents(diff, left); !ok {
			return harness.Failf("left-node-not-represented"+dirSuffix, "after %s: left node %s is not represented in the diff\nleft:\n%sright:\n%sdiff:\n%s", after, tu.Describe(miss), leftText, rightText, diff.String())
		}
		if ok, miss := represents(diff, right); !ok {
			return harness.Failf("right-node-not-represented"+dirSuffix, "after %s: right node %s is not represented in the diff\nleft:\n%sright:\n%sdiff:\n%s", after, tu.Describe(miss), leftText, rightText, diff.String())
		}
		return nil
	}

	diff = gedcom.CompareNodes(left, right)
	if f := pure("CompareNodes"); f != nil {
		return f
	}
	if f := structure("CompareNodes"); f != nil {
		return f
	}
	for _, op := range c.Ops {
		switch op {
		case "String":
			_ = diff.String()
		case "IsDeepEqual":
			_ = diff.IsDeepEqual()
		case "Sort":
			diff.Sort()
		case "Tag":
			walkDiff(diff, 0, func(e *gedcom.NodeDiff, _ int) { _ = e.Tag() })
		case "CompareAgain":
			diff = gedcom.CompareNodes(left, right)
		}
		if f := pure(op); f != nil {
			return f
		}
		if f := structure(op); f != nil {
			return f
		}
	}
	if deepEqual {
		if !diff.IsDeepEqual() {
			return harness.Failf("deep-equal-but-diff-not"+dirSuffix, "inputs are DeepEqual both ways but the diff says they differ:\n%s", diff.String())
		}
		var f *harness.Failure
		walkDiff(diff, 0, func(e *gedcom.NodeDiff, d int) {
			if f == nil && (gedcom.IsNil(e.Left) || gedcom.IsNil(e.Right)) {
				f = harness.Failf("deep-equal-one-sided-entry"+dirSuffix, "inputs are DeepEqual but the diff has a one-sided entry at depth %d:\n%s", d, diff.String())
			}
		})
		if f != nil {
			return f
		}
	}
	// unique leaves: present on one side only => one-sided entry on that side
	var f *harness.Failure
	uniqueLeaves(c.Left, func(tag string) {
		if f != nil {
			return
		}
		n := 0
		walkDiff(diff, 0, func(e *gedcom.NodeDiff, _ int) {
			if !gedcom.IsNil(e.Left) && e.Left.Tag().Tag() == tag {
				n++
				if !gedcom.IsNil(e.Right) {
					f = harness.Failf("unique-leaf-two-sided", "leaf %s exists on the left only but its entry is two-sided (Right %s)", tag, tu.Describe(e.Right))
				}
			}
			if !gedcom.IsNil(e.Right) && e.Right.Tag().Tag() == tag {
				f = harness.Failf("unique-leaf-wrong-side", "leaf %s exists on the left only but an entry holds it on the right", tag)
			}
		})
		if f == nil && n != 1 {
			f = harness.Failf("unique-leaf-count", "leaf %s exists once on the left but %d entries hold it", tag, n)
		}
	})
	uniqueLeaves(c.Right, func(tag string) {
		if f != nil {
			return
		}
		n := 0
		walkDiff(diff, 0, func(e *gedcom.NodeDiff, _ int) {
			if !gedcom.IsNil(e.Right) && e.Right.Tag().Tag() == tag {
				n++
				if !gedcom.IsNil(e.Left) {
					f = harness.Failf("unique-leaf-two-sided", "leaf %s exists on the right only but its entry is two-sided (Left %s)", tag, tu.Describe(e.Left))
				}
			}
			if !gedcom.IsNil(e.Left) && e.Left.Tag().Tag() == tag {
				f = harness.Failf("unique-leaf-wrong-side", "leaf %s exists on the right only but an entry holds it on the left", tag)
			}
		})
		if f == nil && n != 1 {
			f = harness.Failf("unique-leaf-count", "leaf %s exists once on the right but %d entries hold it", tag, n)
		}
	})
	return f
}

func has(d depthSet, n gedcom.Node) bool { _, ok := d[n]; return ok }

// uniqueLeaves calls fn for every uniquely tagged marker leaf (_INSL<n> on the
// left, _INSR<n> on the right).
func uniqueLeaves(root *gen.NodeBP, fn func(tag string)) {
	root.Walk(0, func(n *gen.NodeBP, _ int) {
		if len(n.Tag) > 4 && n.Tag[:4] == "_INS" {
			fn(n.Tag)
		}
	})
}

// insertLeaves adds k uniquely tagged leaves under plain parents.
func insertLeaves(rt *rapid.T, root *gen.NodeBP, side string, k int) int {
	var plain []*gen.NodeBP
	root.Walk(0, func(n *gen.NodeBP, _ int) {
		switch n.Tag {
		case "_A", "_B", "OCCU", "NOTE", "PLAC", "NAME", "TYPE", "INDI", "FAM":
			plain = append(plain, n)
		}
	})
	if len(plain) == 0 {
		return 0
	}
	for i := 0; i < k; i++ {
		p := plain[rapid.IntRange(0, len(plain)-1).Draw(rt, "insparent")]
		leaf := &gen.NodeBP{Tag: fmt.Sprintf("_INS%s%d", side, i), Value: "only here"}
		pos := rapid.IntRange(0, len(p.Kids)).Draw(rt, "inspos")
		p.Kids = append(p.Kids[:pos], append([]*gen.NodeBP{leaf}, p.Kids[pos:]...)...)
	}
	return k
}

func shuffleAll(rt *rapid.T, root *gen.NodeBP) *gen.NodeBP {
	c := root.Clone()
	c.Walk(0, func(n *gen.NodeBP, _ int) {
		if len(n.Kids) >= 2 {
			n.Kids = rapid.Permutation(n.Kids).Draw(rt, "shuffle")
		}
	})
	return c
}

func TestCheckDiff(t *testing.T) {
	s := harness.NewSub("diff-accounting-and-purity",
		"pairs of trees (as in C07: all node kinds, duplicate and same-kind siblings; one tree in 30 with 40..160 further children under one node): independent trees with the same root tag, a tree and its permuted copy, a tree and a copy with 1..3 uniquely tagged leaves inserted on either side under plain parents, a tree and itself (the same objects on both sides), a tree and another root over the same child objects in reverse order; then a random sequence of 0..6 operations from {String, IsDeepEqual, Sort, Tag, CompareAgain}; after CompareNodes and after every operation: entry sides are identity nodes of the right input at the right depth, every input node is represented, unique leaves are one-sided on the correct side, deep-equal inputs give an all-two-sided diff, and both inputs' GEDCOM text and node counts are unchanged; non-trivial = both trees >= 3 nodes and (Sort in the sequence or a one-sided leaf)")
	s.Rapid(t, harness.Share(harness.Pick(150000, 10000000)), 80, func(rt *rapid.T) {
		left := gen.EqTree(gen.EqTreeOpts{MaxNodes: 18, Roles: true, Wide: 30}).Draw(rt, "left")
		c := diffCase{Left: left}
		c.Kind = rapid.SampledFrom([]string{"independent", "permuted-copy", "leaves-inserted", "leaves-inserted", "leaves-inserted", "same-instance", "shared-children"}).Draw(rt, "kind")
		oneSided := false
		switch c.Kind {
		case "independent":
			c.Right = gen.EqTree(gen.EqTreeOpts{MaxNodes: 18, Roots: []string{left.Tag}, Roles: true, Wide: 30}).Draw(rt, "right")
		case "permuted-copy":
			c.Right = shuffleAll(rt, left)
		case "same-instance", "shared-children":
			// the right tree is the left tree itself, or another root over the same child
			// objects in another order (the check builds it from the left tree)
			c.Right = left.Clone()
		default:
			c.Left = left.Clone()
			c.Right = shuffleAll(rt, left)
			nl := insertLeaves(rt, c.Left, "L", rapid.IntRange(0, 2).Draw(rt, "nl"))
			nr := insertLeaves(rt, c.Right, "R", rapid.IntRange(0, 3).Draw(rt, "nr"))
			oneSided = nl+nr > 0
		}
		c.Ops = rapid.SliceOfN(rapid.SampledFrom([]string{"String", "IsDeepEqual", "Sort", "Sort", "Tag", "CompareAgain"}), 0, 6).Draw(rt, "ops")
		hasSort := false
		for _, o := range c.Ops {
			if o == "Sort" {
				hasSort = true
			}
		}
		nt := c.Left.Count() >= 3 && c.Right.Count() >= 3 && (hasSort || oneSided)
		cls := []string{"kind:" + c.Kind}
		if hasSort {
			cls = append(cls, "with-sort")
		}
		if gen.HasSameKindSiblings(c.Left) {
			cls = append(cls, "same-kind-siblings")
		}
		wide := gen.MaxFanout(c.Left) >= 40 || gen.MaxFanout(c.Right) >= 40
		if wide {
			cls = append(cls, "wide:>=40-siblings")
		}
		s.Eval(harness.JSON(c), nt, cls...)
		if nt && !wide {
			s.MaybeSample(c)
		}
		if fl := check(c); fl != nil && s.Report(c, fl) {
			rt.Fatalf("%s: %s", fl.Sig, fl.Msg)
		}
	})
}

// ---- diffs of values that have a history ------------------------------------------------------

type histCase struct {
	Left  *gen.NodeBP  `json:"left"`
	Right *gen.NodeBP  `json:"right"`
	Warm  int          `json:"warm"`
	Edits []gen.EditOp `json:"edits"`
}

func warmUp(l, r gedcom.Node, rounds int) {
	for i := 0; i < rounds; i++ {
		d := gedcom.CompareNodes(l, r)
		_ = d.String()
		_ = d.IsDeepEqual()
		d.Sort()
		for _, a := range tu.All(l) {
			for _, b := range tu.All(r) {
				_ = a.Equals(b)
			}
		}
	}
}

// checkHistory: a diff is a function of the content of the two trees, not of what was done
// with them before. Live trees that were compared and then edited through the public API
// must give exactly the diff of trees built from nothing with the same content.
func checkHistory(c histCase) (fl *harness.Failure, edited int) {
	defer func() {
		if p := recover(); p != nil {
			fl = harness.Failf("panic", "panic: %v", p)
		}
	}()
	// several callers at once on trees nobody has read yet (every DATE still unparsed): each
	// gets the diff a single caller gets on trees of the same content
	{
		_, l1, _ := gen.BuildTree(c.Left.Clone())
		_, r1, _ := gen.BuildTree(c.Right.Clone())
		single := gedcom.CompareNodes(l1, r1)
		want := fmt.Sprintf("%s\ndeep-equal=%v", single.String(), single.IsDeepEqual())
		_, l0, _ := gen.BuildTree(c.Left.Clone())
		_, r0, _ := gen.BuildTree(c.Right.Clone())
		const callers = 8
		outs := make([]string, callers)
		start := make(chan struct{})
		var wg sync.WaitGroup
		for k := 0; k < callers; k++ {
			wg.Add(1)
			go func(k int) {
				defer wg.Done()
				defer func() {
					if p := recover(); p != nil {
						outs[k] = fmt.Sprintf("panic: %v", p)
					}
				}()
				<-start
				d := gedcom.CompareNodes(l0, r0)
				outs[k] = fmt.Sprintf("%s\ndeep-equal=%v", d.String(), d.IsDeepEqual())
			}(k)
		}
		close(start)
		wg.Wait()
		for k := range outs {
			if outs[k] != want {
				return harness.Failf("parallel-diff-differs", "%d callers compare the same two freshly built trees at the same time; caller %d gets\n%s\na single caller gets\n%s\nleft:\n%sright:\n%s", callers, k, outs[k], want, tu.Text(l1), tu.Text(r1)), 0
			}
		}
	}
	_, l, _ := gen.BuildTree(c.Left)
	_, r, _ := gen.BuildTree(c.Right)
	warmUp(l, r, c.Warm)
	for _, e := range c.Edits {
		if e.Apply(l, r) {
			edited++
			warmUp(l, r, 1)
		}
	}
	// (read everything from the live trees before anything is built: creating nodes resets
	// process-wide caches)
	lbp, rbp := gen.FromNode(l), gen.FromNode(r)
	lt, rtx := tu.Text(l), tu.Text(r)
	live := gedcom.CompareNodes(l, r)
	liveText, liveEqual := live.String(), live.IsDeepEqual()
	liveDeep := gedcom.DeepEqual(l, r)
	_, l2, _ := gen.BuildTree(lbp)
	_, r2, _ := gen.BuildTree(rbp)
	if lt != tu.Text(l2) || rtx != tu.Text(r2) {
		return nil, 0
	}
	fresh := gedcom.CompareNodes(l2, r2)
	if freshText := fresh.String(); freshText != liveText {
		return harness.Failf("history-changes-diff:text", "CompareNodes of trees that were compared and edited before gives\n%s\nand of the same trees built from nothing\n%s\nleft:\n%sright:\n%s", liveText, freshText, lt, rtx), edited
	}
	if fe := fresh.IsDeepEqual(); fe != liveEqual {
		return harness.Failf("history-changes-diff:is-deep-equal", "IsDeepEqual is %v for trees with a history and %v for the same trees built from nothing\nleft:\n%sright:\n%s", liveEqual, fe, lt, rtx), edited
	}
	if fd := gedcom.DeepEqual(l2, r2); fd != liveDeep {
		return harness.Failf("history-changes-diff:deep-equal", "DeepEqual is %v for trees with a history and %v for the same trees built from nothing\nleft:\n%sright:\n%s", liveDeep, fd, lt, rtx), edited
	}
	return nil, edited
}

func TestCheckDiffHistory(t *testing.T) {
	s := harness.NewSub("diff-after-history",
		"pairs of trees (independent with the same root tag, or a tree and its permuted copy) that are first compared (CompareNodes, String, IsDeepEqual, Sort, Equals of every node with every node; 1..2 rounds), then edited through the public API (1..4 edits: AddNode, DeleteNode, SetNodes(nil), a DATE or PLAC child replaced, the children re-added as new nodes), comparing again after every edit; oracle: CompareNodes(...).String(), IsDeepEqual and DeepEqual of the live trees are exactly what the same trees built from nothing give; non-trivial = at least one edit changed a tree and the trees have >= 6 nodes together")
	s.Rapid(t, harness.Share(harness.Pick(30000, 3000000)), 81, func(rt *rapid.T) {
		l := gen.EqTree(gen.EqTreeOpts{MaxNodes: 14}).Draw(rt, "left")
		var r *gen.NodeBP
		if rapid.Bool().Draw(rt, "copy") {
			r = l.Clone()
			if len(r.Kids) > 1 {
				r.Kids = rapid.Permutation(r.Kids).Draw(rt, "perm")
			}
		} else {
			r = gen.EqTree(gen.EqTreeOpts{MaxNodes: 14, Roots: []string{l.Tag}}).Draw(rt, "right")
		}
		c := histCase{Left: l, Right: r, Warm: rapid.IntRange(1, 2).Draw(rt, "warm"), Edits: gen.EditOps(4).Draw(rt, "edits")}
		fl, edited := checkHistory(c)
		nt := edited > 0 && l.Count()+r.Count() >= 6
		s.Eval(harness.JSON(c), nt, fmt.Sprintf("effective-edits:%d", edited))
		if nt {
			s.MaybeSample(c)
		}
		if fl != nil && s.Report(c, fl) {
			rt.Fatalf("%s: %s", fl.Sig, fl.Msg)
		}
	})
}

func init() {
	harness.RegisterReplay("diff-after-history", func(raw json.RawMessage) *harness.Failure {
		var c histCase
		if err := json.Unmarshal(raw, &c); err != nil {
			return harness.Failf("bad-replay", "%v", err)
		}
		fl, _ := checkHistory(c)
		return fl
	})
}

func init() {
	harness.Assume("'equal' in the coverage clauses = Equals in either direction or identical tag, value and pointer (EVEN and RESI decide Equals from their children)",
		"the deep-equal premise is computed with DeepEqual in both directions on the pair itself",
		"unique marker leaves (_INSL<n>/_INSR<n>) are inserted under plain parents only, so 'present on one side only' is unambiguous")
	harness.RegisterReplay("diff-accounting-and-purity", func(raw json.RawMessage) *harness.Failure {
		var c diffCase
		if err := json.Unmarshal(raw, &c); err != nil {
			return harness.Failf("bad-replay", "%v", err)
		}
		return check(c)
	})
}

func TestReplay(t *testing.T) { harness.RunReplay(t) }
