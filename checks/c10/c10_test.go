// C10 - merging documents accounts for every person and keeps links valid (DESIGN.md 6.10).
package c10

import (
	"encoding/json"
	"fmt"
	"regexp"
	"sort"
	"strings"
	"testing"

	"github.com/elliotchance/gedcom/v39"
	"github.com/elliotchance/gedcom/v39/q"
	"pgregory.net/rapid"

	"verif/internal/gen"
	"verif/internal/harness"
	"verif/internal/tu"
)

func TestMain(m *testing.M) { harness.Main(m, "C10") }

type mergeCase struct {
	Left  *gen.GraphBP `json:"left"`
	Right *gen.GraphBP `json:"right"`
	// Kind by construction: same-pointers | renumbered | disjoint | clashing | empty
	Kind      string  `json:"kind"`
	Threshold float64 `json:"threshold"` // MinimumWeightedSimilarity
	Jobs      int     `json:"jobs,omitempty"` // IndividualNodesCompareOptions.Jobs (library route)
	// Hist > 0: after the merge under test both input documents are compared and read (every
	// lazy cache filled), edited through the public API (Hist selects the edits) and merged
	// again sequentially: the result must be that of the same two texts decoded from nothing
	Hist int `json:"hist,omitempty"`
	ViaQuery  bool    `json:"via_query,omitempty"`
}

// mark gives every person a unique marker and two unique fact leaves.
func mark(g *gen.GraphBP, side string) {
	for k, p := range g.People {
		id := fmt.Sprintf("%s%d", side, k)
		p.More = append(p.More,
			&gen.NodeBP{Tag: "_MARK", Value: gen.Str(id + "m")},
			&gen.NodeBP{Tag: "_FACT", Value: gen.Str(id + "a")},
			&gen.NodeBP{Tag: "_FACT", Value: gen.Str(id + "b")})
	}
}

var markRe = regexp.MustCompile(`^([LR]\d+)m$`)

type outPerson struct {
	node    *gedcom.IndividualNode
	pointer string
	marks   []string // "L3", "R1"
	facts   map[string]bool
}

func describe(doc *gedcom.Document) []outPerson {
	var out []outPerson
	for _, n := range doc.Nodes() {
		ind, ok := n.(*gedcom.IndividualNode)
		if !ok {
			continue
		}
		p := outPerson{node: ind, pointer: ind.Pointer(), facts: map[string]bool{}}
		for _, c := range ind.Nodes() {
			switch c.Tag().Tag() {
			case "_MARK":
				if m := markRe.FindStringSubmatch(c.Value()); m != nil {
					p.marks = append(p.marks, m[1])
				}
			case "_FACT":
				p.facts[c.Value()] = true
			}
		}
		out = append(out, p)
	}
	return out
}

// refs collects, per family pointer and role, the markers of the people referred to.
func inputRefs(g *gen.GraphBP, side string) (map[string]map[string]bool, bool) {
	idx := map[string]string{}
	for k, p := range g.People {
		idx[p.ID] = fmt.Sprintf("%s%d", side, k)
	}
	closed := true
	out := map[string]map[string]bool{}
	add := func(fam, role, person string) {
		if person == "" {
			return
		}
		m, ok := idx[person]
		if !ok {
			closed = false
			return
		}
		key := fam + "|" + role
		if out[key] == nil {
			out[key] = map[string]bool{}
		}
		out[key][m] = true
	}
	for _, f := range g.Families {
		add(f.ID, "HUSB", f.Husb)
		add(f.ID, "WIFE", f.Wife)
		for _, c := range f.Children {
			add(f.ID, "CHIL", c)
		}
	}
	return out, closed
}

// mergeAfterHistory: documents that were merged, compared, read and then edited through the
// public API merge exactly like the same two texts decoded from nothing.
func mergeAfterHistory(ld, rd *gedcom.Document, c mergeCase) *harness.Failure {
	warm := func(d *gedcom.Document) {
		_ = d.Individuals().Compare(d.Individuals(), gedcom.NewIndividualNodesCompareOptions())
		for _, i := range d.Individuals() {
			_, _, _, _ = i.Families(), i.Spouses(), i.Parents(), i.Children()
		}
		for _, f := range d.Families() {
			_, _, _ = f.Husband(), f.Wife(), f.Children()
		}
	}
	warm(ld)
	warm(rd)
	edited := 0
	for k, d := range []*gedcom.Document{ld, rd} {
		inds, fams := d.Individuals(), d.Families()
		if len(inds) == 0 {
			continue
		}
		h := c.Hist + 7*k
		x, y := inds[h%len(inds)], inds[(h/3)%len(inds)]
		func() {
			defer func() { _ = recover() }()
			switch h % 5 {
			case 0:
				x.AddBirthDate(fmt.Sprintf("%d", 1700+h%200))
			case 1:
				d.AddFamilyWithHusbandAndWife(fmt.Sprintf("FH%d", k), x, y)
			case 2:
				if len(fams) > 0 {
					fams[h%len(fams)].AddChild(y)
				}
			case 3:
				if len(fams) > 0 {
					for _, n := range fams[h%len(fams)].Nodes() {
						if t := n.Tag().Tag(); t == "HUSB" || t == "WIFE" || t == "CHIL" {
							fams[h%len(fams)].DeleteNode(n)
							break
						}
					}
				}
			default:
				x.AddName(fmt.Sprintf("Afterwards%d /Named/", h))
			}
			edited++
		}()
		warm(d)
	}
	if edited == 0 {
		return nil
	}
	merge := func(l, r *gedcom.Document) (string, error) {
		o := gedcom.NewIndividualNodesCompareOptions()
		o.SimilarityOptions.MinimumWeightedSimilarity = c.Threshold
		m, err := gedcom.MergeDocumentsAndIndividuals(l, r, gedcom.EqualityMergeFunction, o)
		if err != nil {
			return "", err
		}
		return m.String(), nil
	}
	// which right individual a left individual is paired with is only a function of the two
	// documents when no individual holds two identifiers (the library walks them in the order of a
	// Go map and "picks the first one that has not already been matched") and no identifier occurs
	// twice on a side; otherwise two merges of the very same documents may differ, history or not
	for _, d := range []*gedcom.Document{ld, rd} {
		seen := map[string]bool{}
		for _, i := range d.Individuals() {
			ids := i.UniqueIdentifiers().Strings()
			if len(ids) > 1 {
				return nil
			}
			for _, id := range ids {
				if seen[id] {
					return nil
				}
				seen[id] = true
			}
		}
	}
	// live first: decoding resets the process-wide caches
	lt, rt := ld.String(), rd.String()
	live, errL := merge(ld, rd)
	fl, err1 := gedcom.NewDocumentFromString(lt)
	fr, err2 := gedcom.NewDocumentFromString(rt)
	if err1 != nil || err2 != nil {
		return nil
	}
	fresh, errF := merge(fl, fr)
	if (errL == nil) != (errF == nil) || live != fresh {
		return harness.Failf("history-changes-merge", "two documents that were compared, read and edited through the public API merge to\n%s(%v)\nthe same two texts decoded from nothing merge to\n%s(%v)\nleft:\n%sright:\n%s", live, errL, fresh, errF, lt, rt)
	}
	return nil
}

// directionalDates: the subtree holds a DATE with a Before or After constraint (the class
// of C09-F1: Date.Equals is documented not to be an equivalence there).
func directionalDates(n gedcom.Node) bool {
	found := false
	tu.Walk(n, func(x gedcom.Node, _ int) {
		if d, ok := x.(*gedcom.DateNode); ok && d.IsValid() {
			for _, c := range []gedcom.DateConstraint{d.DateRange().StartDate().Constraint, d.DateRange().EndDate().Constraint} {
				if c == gedcom.DateConstraintBefore || c == gedcom.DateConstraintAfter {
					found = true
				}
			}
		}
	})
	return found
}

func unptr(v string) string { return strings.Trim(v, "@") }

type outcome struct {
	merged, unmatchedL, unmatchedR int
	class                          string
}

func check(c mergeCase) (fl *harness.Failure, oc outcome) {
	defer func() {
		if p := recover(); p != nil {
			fl = harness.Failf("panic", "panic: %v", p)
		}
	}()
	ld, rd := c.Left.Doc(), c.Right.Doc()
	lt, rt := ld.String(), rd.String()
	var merged *gedcom.Document
	var err error
	if c.ViaQuery {
		e, perr := q.NewParser().ParseString("MergeDocumentsAndIndividuals(Document1, Document2)")
		if perr != nil {
			return harness.Failf("query-parse", "%v", perr), oc
		}
		var v interface{}
		v, err = e.Evaluate([]*gedcom.Document{ld, rd})
		if err == nil {
			var ok bool
			if merged, ok = v.(*gedcom.Document); !ok {
				return harness.Failf("query-result-type", "the query returned %T", v), oc
			}
		}
	} else {
		o := gedcom.NewIndividualNodesCompareOptions()
		o.SimilarityOptions.MinimumWeightedSimilarity = c.Threshold
		o.Jobs = c.Jobs
		merged, err = gedcom.MergeDocumentsAndIndividuals(ld, rd, gedcom.EqualityMergeFunction, o)
	}
	if err != nil {
		return harness.Failf("merge-error", "merge failed: %v", err), oc
	}
	if ld.String() != lt || rd.String() != rt {
		return harness.Failf("merge-modified-input", "merging changed an input document:\n%s--- now\n%s\n%s--- now\n%s", lt, ld.String(), rt, rd.String()), oc
	}
	text := merged.String()
	out, derr := gedcom.NewDocumentFromString(text)
	if derr != nil {
		return harness.Failf("output-not-decodable", "the merged document does not decode: %v\n%s", derr, text), oc
	}
	people := describe(out)
	// --- accounting -------------------------------------------------------------
	count := map[string]int{}
	for _, p := range people {
		nl, nr := 0, 0
		for _, m := range p.marks {
			count[m]++
			if m[0] == 'L' {
				nl++
			} else {
				nr++
			}
		}
		if nl > 1 || nr > 1 {
			return harness.Failf("two-people-of-one-side-merged", "output individual %s holds the markers %v (two people of the same document)\n%s", p.pointer, p.marks, text), oc
		}
		switch {
		case nl == 1 && nr == 1:
			oc.merged++
		case nl == 1:
			oc.unmatchedL++
		case nr == 1:
			oc.unmatchedR++
		}
	}
	for k := range c.Left.People {
		if n := count[fmt.Sprintf("L%d", k)]; n != 1 {
			return harness.Failf(fmt.Sprintf("person-count-%s", times(n)), "left person %d (%s) occurs %d times in the merged document\nleft:\n%sright:\n%smerged:\n%s", k, c.Left.People[k].ID, n, lt, rt, text), oc
		}
	}
	for k := range c.Right.People {
		if n := count[fmt.Sprintf("R%d", k)]; n != 1 {
			return harness.Failf(fmt.Sprintf("person-count-%s", times(n)), "right person %d (%s) occurs %d times in the merged document\nleft:\n%sright:\n%smerged:\n%s", k, c.Right.People[k].ID, n, lt, rt, text), oc
		}
	}
	// merged individuals hold the facts of both originals
	for _, p := range people {
		for _, m := range p.marks {
			for _, suffix := range []string{"a", "b"} {
				if !p.facts[m+suffix] {
					return harness.Failf("merged-individual-lost-fact", "output individual %s carries marker %s but not its fact %s%s\n%s", p.pointer, m, m, suffix, text), oc
				}
			}
		}
	}
	// ... and every other line of both originals: each node of an original individual is
	// represented in the individual that carries its marker by an equal node under an
	// equal parent chain ("equal" as in C09: Equals either way or the same line)
	originals := map[string]*gedcom.IndividualNode{}
	for _, d := range []*gedcom.Document{ld, rd} {
		for _, ind := range d.Individuals() {
			for _, n := range ind.Nodes() {
				if m := markRe.FindStringSubmatch(n.Value()); n.Tag().Tag() == "_MARK" && m != nil {
					originals[m[1]] = ind
				}
			}
		}
	}
	for _, p := range people {
		for _, m := range p.marks {
			orig := originals[m]
			if orig == nil {
				continue
			}
			if ok, miss := tu.CoversKids(p.node, orig); !ok {
				sig := "merged-individual-lost-node"
				if directionalDates(orig) || directionalDates(p.node) {
					sig += ":directional-dates"
				}
				return harness.Failf(sig, "output individual %s carries marker %s but nothing equal to %s of the original (under an equal parent)\noriginal:\n%s\nmerged document:\n%s", p.pointer, m, tu.Describe(miss), orig.GEDCOMString(0), text), oc
			}
		}
	}
	// --- references ----------------------------------------------------------------
	lrefs, lclosed := inputRefs(c.Left, "L")
	rrefs, rclosed := inputRefs(c.Right, "R")
	if !lclosed || !rclosed {
		return nil, oc // premise: every reference in both inputs resolves
	}
	// class of the case, from the output: were people merged under different
	// pointers, or do two records share a pointer?
	lptr, rptr := map[string]string{}, map[string]string{}
	for k, p := range c.Left.People {
		lptr[fmt.Sprintf("L%d", k)] = p.ID
	}
	for k, p := range c.Right.People {
		rptr[fmt.Sprintf("R%d", k)] = p.ID
	}
	seenPtr := map[string]int{}
	for _, n := range out.Nodes() {
		if n.Pointer() != "" {
			seenPtr[n.Pointer()]++
		}
	}
	for _, p := range people {
		if len(p.marks) == 2 {
			a, b := p.marks[0], p.marks[1]
			if a[0] != 'L' {
				a, b = b, a
			}
			if lptr[a] != rptr[b] {
				oc.class = "merged-under-different-pointers"
			}
		}
	}
	if oc.class == "" {
		for _, n := range seenPtr {
			if n > 1 {
				oc.class = "pointer-clash"
			}
		}
	}
	if oc.class == "" {
		// the same family pointer used by both inputs for families of different people
		for key, lm := range lrefs {
			if rm, ok := rrefs[key]; ok {
				_ = lm
				_ = rm
			}
		}
	}
	suffix := ""
	if oc.class != "" {
		suffix = ":" + oc.class
	}
	byMark := map[string]string{} // marker -> output pointer
	for _, p := range people {
		for _, m := range p.marks {
			byMark[m] = p.pointer
		}
	}
	markersAt := func(pointer string) []string {
		n := out.NodeByPointer(pointer)
		ind, ok := n.(*gedcom.IndividualNode)
		if !ok || ind == nil {
			return nil
		}
		var ms []string
		for _, c := range ind.Nodes() {
			if c.Tag().Tag() == "_MARK" {
				if m := markRe.FindStringSubmatch(c.Value()); m != nil {
					ms = append(ms, m[1])
				}
			}
		}
		return ms
	}
	for _, n := range out.Nodes() {
		switch x := n.(type) {
		case *gedcom.FamilyNode:
			got := map[string]map[string]bool{}
			for _, ch := range x.Nodes() {
				role := ch.Tag().Tag()
				if role != "HUSB" && role != "WIFE" && role != "CHIL" {
					continue
				}
				target := unptr(ch.Value())
				rec := out.NodeByPointer(target)
				if _, ok := rec.(*gedcom.IndividualNode); !ok || gedcom.IsNil(rec) {
					return harness.Failf("reference-dangling"+suffix, "in the merged document %s of family %s points to %q which is not an individual record\nleft:\n%sright:\n%smerged:\n%s", role, x.Pointer(), ch.Value(), lt, rt, text), oc
				}
				want := map[string]bool{}
				for m := range lrefs[x.Pointer()+"|"+role] {
					want[m] = true
				}
				for m := range rrefs[x.Pointer()+"|"+role] {
					want[m] = true
				}
				ok := false
				for _, m := range markersAt(target) {
					if want[m] {
						ok = true
						if got[role] == nil {
							got[role] = map[string]bool{}
						}
						got[role][m] = true
					}
				}
				if !ok {
					return harness.Failf("reference-to-wrong-person"+suffix, "in the merged document %s %s of family %s resolves to the individual carrying %v, but the inputs refer to %v there\nleft:\n%sright:\n%smerged:\n%s", role, ch.Value(), x.Pointer(), markersAt(target), keys(want), lt, rt, text), oc
				}
			}
			for _, role := range []string{"HUSB", "WIFE", "CHIL"} {
				for _, refs := range []map[string]map[string]bool{lrefs, rrefs} {
					for m := range refs[x.Pointer()+"|"+role] {
						if !got[role][m] {
							return harness.Failf("reference-lost"+suffix, "the inputs refer to person %s as %s of family %s; the merged family has no %s line that resolves to the record now representing that person (%s)\nleft:\n%sright:\n%smerged:\n%s", m, role, x.Pointer(), role, byMark[m], lt, rt, text), oc
						}
					}
				}
			}
		case *gedcom.IndividualNode:
			for _, ch := range x.Nodes() {
				if t := ch.Tag().Tag(); t == "FAMS" || t == "FAMC" {
					if _, ok := out.NodeByPointer(unptr(ch.Value())).(*gedcom.FamilyNode); !ok {
						return harness.Failf("reference-dangling"+suffix, "in the merged document %s %s of individual %s does not resolve to a family record\n%s", t, ch.Value(), x.Pointer(), text), oc
					}
				}
			}
		}
	}
	// last (it edits the input documents, and the merged document may hold their nodes):
	if c.Hist > 0 && !c.ViaQuery && !c.Left.IsHuge() && !c.Right.IsHuge() {
		if f := mergeAfterHistory(ld, rd, c); f != nil {
			return f, oc
		}
	}
	return nil, oc
}

func times(n int) string {
	if n == 0 {
		return "dropped"
	}
	return "duplicated"
}

func keys(m map[string]bool) []string {
	var k []string
	for x := range m {
		k = append(k, x)
	}
	sort.Strings(k)
	return k
}

func clone(g *gen.GraphBP) *gen.GraphBP {
	b, _ := json.Marshal(g)
	var r gen.GraphBP
	_ = json.Unmarshal(b, &r)
	return &r
}

func renumber(g *gen.GraphBP, pp, fp string) {
	for _, p := range g.People {
		old := p.ID
		p.ID = pp + old
		for _, f := range g.Families {
			if f.Husb == old {
				f.Husb = p.ID
			}
			if f.Wife == old {
				f.Wife = p.ID
			}
			for k := range f.Children {
				if f.Children[k] == old {
					f.Children[k] = p.ID
				}
			}
		}
	}
	for _, f := range g.Families {
		f.ID = fp + f.ID
	}
}

func genCase(rt *rapid.T) mergeCase {
	base := rapid.SampledFrom([]int{1850, 1900}).Draw(rt, "base")
	o := gen.GraphOpts{MaxPeople: 7, MaxFamilies: 3, YearLo: base, YearHi: base + 40, UIDs: rapid.Bool().Draw(rt, "uids"), Big: 60, BigLo: 20, BigHi: 45, Huge: 500, HugeLo: 258, HugeHi: 330}
	c := mergeCase{Left: gen.Graph(o).Draw(rt, "left")}
	c.Kind = rapid.SampledFrom([]string{"same-pointers", "same-pointers", "renumbered", "disjoint", "clashing", "empty"}).Draw(rt, "kind")
	switch c.Kind {
	case "same-pointers", "renumbered":
		r := clone(c.Left)
		// independently edited copy: drop people, change facts, add people
		var kept []*gen.PersonBP
		for _, p := range r.People {
			if rapid.IntRange(0, 5).Draw(rt, "drop") == 0 {
				for _, f := range r.Families {
					if f.Husb == p.ID {
						f.Husb = ""
					}
					if f.Wife == p.ID {
						f.Wife = ""
					}
					var ch []string
					for _, x := range f.Children {
						if x != p.ID {
							ch = append(ch, x)
						}
					}
					f.Children = ch
				}
				continue
			}
			if rapid.IntRange(0, 3).Draw(rt, "edit") == 0 && len(p.Events) > 0 {
				p.Events[0].Place = "Changed Place"
			}
			if rapid.IntRange(0, 5).Draw(rt, "rename") == 0 && len(p.Names) > 0 {
				p.Names[0] = gen.Str(gen.PersonName().Draw(rt, "newname"))
			}
			kept = append(kept, p)
		}
		r.People = kept
		if rapid.IntRange(0, 2).Draw(rt, "addPerson") == 0 {
			np := &gen.PersonBP{ID: "N1", Names: []gen.Str{gen.Str(gen.PersonName().Draw(rt, "addedname"))}}
			r.People = append(r.People, np)
			if len(r.Families) > 0 {
				r.Families[0].Children = append(r.Families[0].Children, "N1")
			}
		}
		if c.Kind == "renumbered" {
			renumber(r, "Q", "G")
		}
		c.Right = r
	case "disjoint":
		o.IDPrefix, o.FamPrefix = "P", "G"
		c.Right = gen.Graph(o).Draw(rt, "right")
	case "clashing":
		c.Right = gen.Graph(o).Draw(rt, "rightClash")
	default:
		c.Right = &gen.GraphBP{}
		if rapid.Bool().Draw(rt, "emptyLeft") {
			c.Left, c.Right = c.Right, c.Left
		}
	}
	// strip back-link generation differences: keep as drawn
	mark(c.Left, "L")
	mark(c.Right, "R")
	c.Threshold = rapid.SampledFrom([]float64{gedcom.DefaultMinimumSimilarity, gedcom.DefaultMinimumSimilarity, 0.95, 0.3}).Draw(rt, "threshold")
	c.Jobs = rapid.SampledFrom([]int{0, 0, 1, 2, 4, 16}).Draw(rt, "jobs")
	if rapid.IntRange(0, 3).Draw(rt, "history") == 2 {
		c.Hist = rapid.IntRange(1, 1000).Draw(rt, "hist")
	}
	c.ViaQuery = rapid.IntRange(0, 5).Draw(rt, "viaQuery") == 0
	if c.ViaQuery {
		c.Threshold = gedcom.DefaultMinimumSimilarity
	}
	return c
}

func TestCheckMerge(t *testing.T) {
	s := harness.NewSub("document-merge-accounting-and-references",
		"pairs of referentially closed family graphs (<= 7 people, <= 3 families; one pair in 60 with 20..45 people per side, one in 500 with 258..330): a base and an independently edited copy (people dropped/added/renamed, facts changed) with the same pointers or completely renumbered, disjoint documents, documents whose pointers clash, an empty side; every person carries a unique marker and two unique fact leaves; thresholds default/0.95/0.3; Jobs 0/1/2/4/16 (the merge matches people with the same machinery as Compare); library call and the query function MergeDocumentsAndIndividuals. For a quarter of the library cases the two documents are afterwards compared, read, edited through the public API and merged again (sequentially): the text must be that of the same two texts decoded from nothing. Oracle: output decodes, every marker exactly once, no two people of one side merged, merged people hold all unique facts and every other line of both originals (an equal node under an equal parent chain), inputs unchanged; every HUSB/WIFE/CHIL of the output resolves to an individual carrying the marker of a person the inputs refer to in that family and role, every input reference is still there, FAMS/FAMC resolve to families; non-trivial = a merged pair and an unmatched person on each side")
	s.Rapid(t, harness.Share(harness.Pick(30000, 600000)), 100, func(rt *rapid.T) {
		c := genCase(rt)
		fl, oc := check(c)
		nt := oc.merged >= 1 && oc.unmatchedL >= 1 && oc.unmatchedR >= 1
		cls := []string{"kind:" + c.Kind}
		if oc.class != "" {
			cls = append(cls, "class:"+oc.class)
		}
		if oc.merged > 0 {
			cls = append(cls, "has-merged-pair")
		}
		if c.ViaQuery {
			cls = append(cls, "via-query")
		}
		isBig := c.Left.IsBig() || c.Right.IsBig()
		if isBig {
			cls = append(cls, "big:>=20-people")
		}
		if c.Left.IsHuge() || c.Right.IsHuge() {
			cls = append(cls, "huge:>256-people")
		}
		s.Eval(harness.JSON(c), nt, cls...)
		if nt && !isBig {
			s.MaybeSample(c)
		}
		if fl != nil && s.Report(c, fl) {
			rt.Fatalf("%s: %s", fl.Sig, fl.Msg)
		}
	})
}

func init() {
	harness.Assume("people are tracked through unique marker leaves (_MARK) and unique fact leaves (_FACT) that no merge rule can identify with each other",
		"the reference clauses are only required when every family reference of both inputs resolves",
		"failing reference clauses are attributed to a class computed from the output: people merged under different pointers, or two records sharing a pointer")
	harness.RegisterReplay("document-merge-accounting-and-references", func(raw json.RawMessage) *harness.Failure {
		var c mergeCase
		if err := json.Unmarshal(raw, &c); err != nil {
			return harness.Failf("bad-replay", "%v", err)
		}
		fl, _ := check(c)
		return fl
	})
}

func TestReplay(t *testing.T) { harness.RunReplay(t) }
