// C16 - query results equal what the Go API gives (DESIGN.md 6.16).
// G4: typed query ASTs with a printer; R6: a reflection-free reference interpreter
// that calls the Go API directly with ordinary loops.
package c16

import (
	"encoding/json"
	"fmt"
	"reflect"
	"regexp"
	"strconv"
	"strings"
	"sync"
	"testing"

	"github.com/elliotchance/gedcom/v39"
	"github.com/elliotchance/gedcom/v39/q"
	"pgregory.net/rapid"

	"verif/internal/gen"
	"verif/internal/harness"
)

func TestMain(m *testing.M) { harness.Main(m, "C16") }

// ---- types and the accessor table ------------------------------------------------------

type typ string

const (
	tDoc, tIndi, tFam, tHusb, tWife, tChil, tName, tDate, tDateVal, tSex, tNode, tStr, tNum, tBool, tObj typ = "Doc", "Indi", "Fam", "Husb", "Wife", "Chil", "Name", "Date", "DateVal", "Sex", "Node", "Str", "Num", "Bool", "Obj"
)

type accessor struct {
	name     string
	in       typ
	out      typ
	list     bool // the accessor itself returns a list
	nullable bool // the result may be a typed nil pointer
	nilSafe  bool // may be applied to a typed nil pointer
	fn       func(v interface{}) interface{}
}

func list(v interface{}) []interface{} {
	rv := reflect.ValueOf(v)
	out := make([]interface{}, 0, rv.Len())
	for i := 0; i < rv.Len(); i++ {
		out = append(out, rv.Index(i).Interface())
	}
	return out
}

var table = []accessor{
	{"Individuals", tDoc, tIndi, true, false, false, func(v interface{}) interface{} { return list(v.(*gedcom.Document).Individuals()) }},
	{"Families", tDoc, tFam, true, false, false, func(v interface{}) interface{} { return list(v.(*gedcom.Document).Families()) }},

	{"Name", tIndi, tName, false, true, true, func(v interface{}) interface{} { return v.(*gedcom.IndividualNode).Name() }},
	{"Names", tIndi, tName, true, false, true, func(v interface{}) interface{} { return list(v.(*gedcom.IndividualNode).Names()) }},
	{"Sex", tIndi, tSex, false, true, true, func(v interface{}) interface{} { return v.(*gedcom.IndividualNode).Sex() }},
	{"Births", tIndi, tNode, true, false, true, func(v interface{}) interface{} { return list(v.(*gedcom.IndividualNode).Births()) }},
	{"Deaths", tIndi, tNode, true, false, true, func(v interface{}) interface{} { return list(v.(*gedcom.IndividualNode).Deaths()) }},
	{"Baptisms", tIndi, tNode, true, false, true, func(v interface{}) interface{} { return list(v.(*gedcom.IndividualNode).Baptisms()) }},
	{"Burials", tIndi, tNode, true, false, true, func(v interface{}) interface{} { return list(v.(*gedcom.IndividualNode).Burials()) }},
	{"Families", tIndi, tFam, true, false, true, func(v interface{}) interface{} { return list(v.(*gedcom.IndividualNode).Families()) }},
	{"Spouses", tIndi, tIndi, true, false, true, func(v interface{}) interface{} { return list(v.(*gedcom.IndividualNode).Spouses()) }},
	{"Parents", tIndi, tFam, true, false, true, func(v interface{}) interface{} { return list(v.(*gedcom.IndividualNode).Parents()) }},
	{"Children", tIndi, tChil, true, false, true, func(v interface{}) interface{} { return list(v.(*gedcom.IndividualNode).Children()) }},
	{"Pointer", tIndi, tStr, false, false, false, func(v interface{}) interface{} { return v.(*gedcom.IndividualNode).Pointer() }},
	{"String", tIndi, tStr, false, false, true, func(v interface{}) interface{} { return v.(*gedcom.IndividualNode).String() }},
	{"Birth", tIndi, tDate, false, true, true, func(v interface{}) interface{} { d, _ := v.(*gedcom.IndividualNode).Birth(); return d }},
	{"Death", tIndi, tDate, false, true, true, func(v interface{}) interface{} { d, _ := v.(*gedcom.IndividualNode).Death(); return d }},
	{"Baptism", tIndi, tDate, false, true, true, func(v interface{}) interface{} { d, _ := v.(*gedcom.IndividualNode).Baptism(); return d }},
	{"Burial", tIndi, tDate, false, true, true, func(v interface{}) interface{} { d, _ := v.(*gedcom.IndividualNode).Burial(); return d }},
	{"EstimatedBirthDate", tIndi, tDate, false, true, true, func(v interface{}) interface{} { d, _ := v.(*gedcom.IndividualNode).EstimatedBirthDate(); return d }},
	{"EstimatedDeathDate", tIndi, tDate, false, true, true, func(v interface{}) interface{} { d, _ := v.(*gedcom.IndividualNode).EstimatedDeathDate(); return d }},
	{"AllEvents", tIndi, tNode, true, false, false, func(v interface{}) interface{} { return list(v.(*gedcom.IndividualNode).AllEvents()) }},
	{"Nodes", tIndi, tNode, true, false, false, func(v interface{}) interface{} { return list(v.(*gedcom.IndividualNode).Nodes()) }},

	{"Husband", tFam, tHusb, false, true, true, func(v interface{}) interface{} { return v.(*gedcom.FamilyNode).Husband() }},
	{"Wife", tFam, tWife, false, true, true, func(v interface{}) interface{} { return v.(*gedcom.FamilyNode).Wife() }},
	{"Children", tFam, tChil, true, false, true, func(v interface{}) interface{} { return list(v.(*gedcom.FamilyNode).Children()) }},
	{"Pointer", tFam, tStr, false, false, false, func(v interface{}) interface{} { return v.(*gedcom.FamilyNode).Pointer() }},
	{"String", tFam, tStr, false, false, false, func(v interface{}) interface{} { return v.(*gedcom.FamilyNode).String() }},
	{"Nodes", tFam, tNode, true, false, false, func(v interface{}) interface{} { return list(v.(*gedcom.FamilyNode).Nodes()) }},

	{"Individual", tHusb, tIndi, false, true, true, func(v interface{}) interface{} { return v.(*gedcom.HusbandNode).Individual() }},
	{"String", tHusb, tStr, false, false, true, func(v interface{}) interface{} { return v.(*gedcom.HusbandNode).String() }},
	{"Individual", tWife, tIndi, false, true, true, func(v interface{}) interface{} { return v.(*gedcom.WifeNode).Individual() }},
	{"String", tWife, tStr, false, false, true, func(v interface{}) interface{} { return v.(*gedcom.WifeNode).String() }},
	{"Individual", tChil, tIndi, false, true, true, func(v interface{}) interface{} { return v.(*gedcom.ChildNode).Individual() }},
	{"Value", tChil, tStr, false, false, false, func(v interface{}) interface{} { return v.(*gedcom.ChildNode).Value() }},

	{"String", tName, tStr, false, false, true, func(v interface{}) interface{} { return v.(*gedcom.NameNode).String() }},
	{"GivenName", tName, tStr, false, false, true, func(v interface{}) interface{} { return v.(*gedcom.NameNode).GivenName() }},
	{"Surname", tName, tStr, false, false, true, func(v interface{}) interface{} { return v.(*gedcom.NameNode).Surname() }},
	{"Suffix", tName, tStr, false, false, true, func(v interface{}) interface{} { return v.(*gedcom.NameNode).Suffix() }},
	{"Prefix", tName, tStr, false, false, true, func(v interface{}) interface{} { return v.(*gedcom.NameNode).Prefix() }},
	{"Title", tName, tStr, false, false, true, func(v interface{}) interface{} { return v.(*gedcom.NameNode).Title() }},

	{"String", tDate, tStr, false, false, true, func(v interface{}) interface{} { return v.(*gedcom.DateNode).String() }},
	{"IsValid", tDate, tBool, false, false, true, func(v interface{}) interface{} { return v.(*gedcom.DateNode).IsValid() }},
	{"Years", tDate, tNum, false, false, true, func(v interface{}) interface{} { return v.(*gedcom.DateNode).Years() }},
	{"IsExact", tDate, tBool, false, false, true, func(v interface{}) interface{} { return v.(*gedcom.DateNode).IsExact() }},
	{"StartDate", tDate, tDateVal, false, false, true, func(v interface{}) interface{} { return v.(*gedcom.DateNode).StartDate() }},
	{"EndDate", tDate, tDateVal, false, false, true, func(v interface{}) interface{} { return v.(*gedcom.DateNode).EndDate() }},

	{"Year", tDateVal, tNum, false, false, false, func(v interface{}) interface{} { return v.(gedcom.Date).Year }},
	{"Day", tDateVal, tNum, false, false, false, func(v interface{}) interface{} { return v.(gedcom.Date).Day }},
	{"Years", tDateVal, tNum, false, false, false, func(v interface{}) interface{} { return v.(gedcom.Date).Years() }},
	{"String", tDateVal, tStr, false, false, false, func(v interface{}) interface{} { return v.(gedcom.Date).String() }},

	{"IsMale", tSex, tBool, false, false, true, func(v interface{}) interface{} { return v.(*gedcom.SexNode).IsMale() }},
	{"IsFemale", tSex, tBool, false, false, true, func(v interface{}) interface{} { return v.(*gedcom.SexNode).IsFemale() }},
	{"String", tSex, tStr, false, false, true, func(v interface{}) interface{} { return v.(*gedcom.SexNode).String() }},

	{"Value", tNode, tStr, false, false, false, func(v interface{}) interface{} { return v.(gedcom.Node).Value() }},
	{"Pointer", tNode, tStr, false, false, false, func(v interface{}) interface{} { return v.(gedcom.Node).Pointer() }},
	{"Nodes", tNode, tNode, true, false, false, func(v interface{}) interface{} { return list(v.(gedcom.Node).Nodes()) }},
	{"String", tNode, tStr, false, false, false, func(v interface{}) interface{} { return v.(gedcom.Node).String() }},
}

func accessorsFor(t typ, nullable bool) []accessor {
	var out []accessor
	for _, a := range table {
		if a.in == t && (!nullable || a.nilSafe) {
			out = append(out, a)
		}
	}
	return out
}

func lookup(t typ, name string) *accessor {
	for i := range table {
		if table[i].in == t && table[i].name == name {
			return &table[i]
		}
	}
	return nil
}

// ---- AST ------------------------------------------------------------------------------------

type expr struct {
	Kind  string   `json:"k"`           // acc | first | last | length | only | combine | tagpath | object | var | const | binop
	Name  string   `json:"n,omitempty"` // accessor / variable / operator
	In    typ      `json:"in,omitempty"`
	N     int      `json:"i,omitempty"`
	Pipes []pipe   `json:"p,omitempty"` // only: condition; combine: arguments; object: values
	Keys  []string `json:"keys,omitempty"`
	Tags  []string `json:"tags,omitempty"`
	Value string   `json:"v,omitempty"`
	IsStr bool     `json:"s,omitempty"`
	L     *expr    `json:"l,omitempty"`
	R     *expr    `json:"r,omitempty"`
}

type pipe []*expr

type variable struct {
	Name string `json:"name"`
	Def  pipe   `json:"def"`
}

type program struct {
	Vars []variable `json:"vars,omitempty"`
	Main pipe       `json:"main"`
}

func (e *expr) String() string {
	switch e.Kind {
	case "acc":
		return "." + e.Name
	case "first":
		return fmt.Sprintf("First(%s%d)", e.Value, e.N) // Value: leading zeros of the spelling
	case "last":
		return fmt.Sprintf("Last(%s%d)", e.Value, e.N)
	case "length":
		return "Length"
	case "only":
		return "Only(" + e.Pipes[0].String() + ")"
	case "combine":
		var a []string
		for _, p := range e.Pipes {
			a = append(a, p.String())
		}
		return "Combine(" + strings.Join(a, ", ") + ")"
	case "tagpath":
		var a []string
		for _, t := range e.Tags {
			a = append(a, strconv.Quote(t))
		}
		return "NodesWithTagPath(" + strings.Join(a, ", ") + ")"
	case "object":
		var a []string
		for i, k := range e.Keys {
			a = append(a, k+": "+e.Pipes[i].String())
		}
		return "{" + strings.Join(a, ", ") + "}"
	case "var":
		return e.Name
	case "const":
		if e.IsStr {
			return `"` + e.Value + `"`
		}
		return e.Value
	case "binop":
		return e.L.String() + " " + e.Name + " " + e.R.String()
	}
	return "?"
}

func (p pipe) String() string {
	var a []string
	for _, e := range p {
		a = append(a, e.String())
	}
	return strings.Join(a, " | ")
}

func (p program) String() string {
	var a []string
	for _, v := range p.Vars {
		a = append(a, v.Name+" is "+v.Def.String())
	}
	return strings.Join(append(a, p.Main.String()), "; ")
}

// ---- R6: the reference interpreter ---------------------------------------------------------------

type interp struct {
	vars map[string]pipe
	doc  *gedcom.Document
	// emptied: First or Last was applied to an empty list somewhere (finding C16-F1)
	emptied bool
}

func isList(v interface{}) bool { _, ok := v.([]interface{}); return ok }

var numeric = regexp.MustCompile(`^[0-9]+(\.[0-9]+)?$`)

func text(v interface{}) string {
	if s, ok := v.(string); ok {
		return s
	}
	return fmt.Sprintf("%v", v)
}

// compare implements the documented rule: numerically when both sides are numeric,
// otherwise case-insensitively on trimmed text.
func compare(op string, l, r interface{}) bool {
	a, b := text(l), text(r)
	var c int
	if numeric.MatchString(a) && numeric.MatchString(b) {
		x, _ := strconv.ParseFloat(a, 64)
		y, _ := strconv.ParseFloat(b, 64)
		switch {
		case x < y:
			c = -1
		case x > y:
			c = 1
		}
	} else {
		c = strings.Compare(strings.TrimSpace(strings.ToLower(a)), strings.TrimSpace(strings.ToLower(b)))
	}
	switch op {
	case "=":
		return c == 0
	case "!=":
		return c != 0
	case "<":
		return c < 0
	case "<=":
		return c <= 0
	case ">":
		return c > 0
	}
	return c >= 0
}

func (in *interp) evalExpr(e *expr, v interface{}) interface{} {
	switch e.Kind {
	case "acc":
		// an accessor applied to a list maps over its elements in order
		if l, ok := v.([]interface{}); ok {
			out := make([]interface{}, 0, len(l))
			for _, x := range l {
				out = append(out, in.evalExpr(e, x))
			}
			return out
		}
		return lookup(e.In, e.Name).fn(v)
	case "first", "last":
		l, ok := v.([]interface{})
		if !ok {
			l = []interface{}{v}
		}
		if len(l) == 0 {
			in.emptied = true
		}
		n := e.N
		if n > len(l) {
			n = len(l)
		}
		if e.Kind == "first" {
			return append([]interface{}{}, l[:n]...)
		}
		return append([]interface{}{}, l[len(l)-n:]...)
	case "length":
		if l, ok := v.([]interface{}); ok {
			return len(l)
		}
		return 1
	case "only":
		out := []interface{}{}
		for _, x := range v.([]interface{}) {
			if b, ok := in.evalPipe(e.Pipes[0], x).(bool); ok && b {
				out = append(out, x)
			}
		}
		return out
	case "combine":
		out := []interface{}{}
		for _, p := range e.Pipes {
			out = append(out, in.evalPipe(p, v).([]interface{})...)
		}
		return out
	case "tagpath":
		l, ok := v.([]interface{})
		if !ok {
			l = []interface{}{v}
		}
		var tags []gedcom.Tag
		for _, t := range e.Tags {
			tags = append(tags, gedcom.TagFromString(t))
		}
		out := []interface{}{}
		for _, x := range l {
			out = append(out, list(gedcom.NodesWithTagPath(x.(gedcom.Node), tags...))...)
		}
		return out
	case "object":
		if l, ok := v.([]interface{}); ok {
			out := make([]interface{}, 0, len(l))
			for _, x := range l {
				out = append(out, in.evalExpr(e, x))
			}
			return out
		}
		m := map[string]interface{}{}
		for i, k := range e.Keys {
			m[k] = in.evalPipe(e.Pipes[i], v)
		}
		return m
	case "var":
		return in.evalPipe(in.vars[e.Name], v)
	case "const":
		return e.Value
	case "binop":
		if l, ok := v.([]interface{}); ok {
			out := make([]interface{}, 0, len(l))
			for _, x := range l {
				out = append(out, in.evalExpr(e, x))
			}
			return out
		}
		return compare(e.Name, in.evalExpr(e.L, v), in.evalExpr(e.R, v))
	}
	panic("unknown expression kind " + e.Kind)
}

func (in *interp) evalPipe(p pipe, v interface{}) interface{} {
	for _, e := range p {
		v = in.evalExpr(e, v)
	}
	return v
}

func reference(p program, doc *gedcom.Document) (res interface{}, err error) {
	res, _, err = referenceFlag(p, doc)
	return
}

func referenceFlag(p program, doc *gedcom.Document) (res interface{}, emptied bool, err error) {
	defer func() {
		if r := recover(); r != nil {
			err = fmt.Errorf("reference interpreter: %v", r)
		}
	}()
	in := &interp{vars: map[string]pipe{}, doc: doc}
	for _, v := range p.Vars {
		if _, dup := in.vars[v.Name]; !dup {
			in.vars[v.Name] = v.Def
		}
	}
	res = in.evalPipe(p.Main, doc)
	return res, in.emptied, nil
}

// ---- the engine side and the comparison -------------------------------------------------------------

func normalise(v interface{}) (interface{}, string, error) {
	b, err := json.Marshal(v)
	if err != nil {
		return nil, "", err
	}
	var out interface{}
	if err := json.Unmarshal(b, &out); err != nil {
		return nil, "", err
	}
	// a nil list and an empty list are the same result
	if out == nil && reflect.ValueOf(v).IsValid() && reflect.ValueOf(v).Kind() == reflect.Slice {
		out = []interface{}{}
	}
	return out, string(b), nil
}

func canon(v interface{}) interface{} {
	switch x := v.(type) {
	case nil:
		return nil
	case []interface{}:
		out := make([]interface{}, len(x))
		for i := range x {
			out[i] = canon(x[i])
		}
		return out
	case map[string]interface{}:
		out := map[string]interface{}{}
		for k, e := range x {
			out[k] = canon(e)
		}
		return out
	}
	return v
}

func runEngine(query string, doc *gedcom.Document) (interface{}, error) {
	e, err := q.NewParser().ParseString(query)
	if err != nil {
		return nil, fmt.Errorf("parse: %v", err)
	}
	return e.Evaluate([]*gedcom.Document{doc})
}

// companion: see the clause "a result that was returned stays what it was" in check.
func companion(prog program, d *gedcom.Document) (program, bool) {
	for i := len(prog.Main) - 1; i >= 1; i-- {
		prefix := program{Vars: prog.Vars, Main: prog.Main[:i]}
		v, err := runEngine(prefix.String(), d)
		if err != nil || v == nil {
			continue
		}
		rv := reflect.ValueOf(v)
		if rv.Kind() != reflect.Slice || rv.Len() < 3 || rv.Type().Elem().Kind() == reflect.Slice {
			continue
		}
		first := append(append(pipe{}, prog.Main[:i]...), &expr{Kind: "first", N: 1})
		last := append(append(pipe{}, prog.Main[:i]...), &expr{Kind: "last", N: 1})
		main := append(pipe{{Kind: "combine", Pipes: []pipe{first, last}}}, prog.Main[i:]...)
		return program{Vars: prog.Vars, Main: main}, true
	}
	return program{}, false
}

type queryCase struct {
	Doc     *gen.GraphBP `json:"doc"`
	Program program      `json:"program"`
	// Edits: the document is queried once, then edited through the public API, then queried
	// again; the result must be that of the same text decoded from nothing
	Edits []docEdit `json:"edits,omitempty"`
}

type docEdit struct {
	Kind string `json:"kind"` // marry | add-child | add-name | add-birth | delete-person | drop-role-line
	A    int    `json:"a"`
	B    int    `json:"b"`
}

func applyDocEdit(doc *gedcom.Document, e docEdit, k int) (ok bool) {
	defer func() {
		if recover() != nil {
			ok = false
		}
	}()
	inds, fams := doc.Individuals(), doc.Families()
	if len(inds) == 0 {
		return false
	}
	x, y := inds[e.A%len(inds)], inds[e.B%len(inds)]
	switch e.Kind {
	case "marry":
		doc.AddFamilyWithHusbandAndWife(fmt.Sprintf("FQ%d", k), x, y)
	case "add-child":
		if len(fams) == 0 {
			return false
		}
		fams[e.B%len(fams)].AddChild(x)
	case "add-name":
		x.AddName(fmt.Sprintf("Later%d /Added/", e.B))
	case "add-birth":
		x.AddBirthDate(fmt.Sprintf("%d", 1801+e.B%90))
	case "delete-person":
		doc.DeleteNode(x)
	case "drop-role-line":
		if len(fams) == 0 {
			return false
		}
		f := fams[e.B%len(fams)]
		for _, n := range f.Nodes() {
			switch n.Tag().Tag() {
			case "HUSB", "WIFE", "CHIL":
				f.DeleteNode(n)
				return true
			}
		}
		return false
	default:
		return false
	}
	return true
}

func emptyAsNil(v interface{}) interface{} {
	if l, ok := v.([]interface{}); ok && len(l) == 0 {
		return nil
	}
	return v
}

func sameJSON(a, b interface{}) bool {
	return reflect.DeepEqual(deepEmpty(a), deepEmpty(b))
}

// deepEmpty maps null and [] to the same value at every level: whether an empty
// result list is written as null or [] depends on whether the Go slice is nil.
func deepEmpty(v interface{}) interface{} {
	switch x := v.(type) {
	case nil:
		return "<empty>"
	case []interface{}:
		if len(x) == 0 {
			return "<empty>"
		}
		out := make([]interface{}, len(x))
		for i := range x {
			out[i] = deepEmpty(x[i])
		}
		return out
	case map[string]interface{}:
		out := map[string]interface{}{}
		for k, e := range x {
			out[k] = deepEmpty(e)
		}
		return out
	}
	return v
}

func check(c queryCase) (fl *harness.Failure, nontrivial bool) {
	defer func() {
		if p := recover(); p != nil {
			fl = harness.Failf("panic", "panic: %v", p)
		}
	}()
	query := c.Program.String()
	want, refErr := reference(c.Program, c.Doc.Doc())
	got, engErr := runEngine(query, c.Doc.Doc())
	if refErr != nil || engErr != nil {
		if refErr != nil && engErr != nil {
			return nil, false // both fail (a call on a nil pointer): same cause class
		}
		return harness.Failf("error-disagreement", "query %q: engine error: %v; reference error: %v\nfile:\n%s", query, engErr, refErr, c.Doc.Text()), false
	}
	gn, gs, err1 := normalise(got)
	wn, ws, err2 := normalise(want)
	if err1 != nil || err2 != nil {
		return harness.Failf("json", "cannot normalise results: %v %v", err1, err2), false
	}
	if !sameJSON(gn, wn) {
		sig := "result-differs:" + lastKind(c.Program)
		if firstLastOfEmptyThenLength(c, c.Program.Main) {
			sig = "after-first-last-of-empty-list"
		}
		return harness.Failf(sig, "query %q\nengine   : %s\nreference: %s\nfile:\n%s", query, trunc(gs), trunc(ws), c.Doc.Text()), false
	}
	// determinism: the same text parsed and evaluated again, and the same engine evaluated twice
	got2, err := runEngine(query, c.Doc.Doc())
	if err != nil {
		return harness.Failf("nondeterministic", "query %q fails on the second evaluation: %v", query, err), false
	}
	if _, s2, _ := normalise(got2); s2 != gs {
		return harness.Failf("nondeterministic", "query %q gives %s and then %s", query, trunc(gs), trunc(s2)), false
	}
	e, _ := q.NewParser().ParseString(query)
	d := c.Doc.Doc()
	before := docViews(d)
	r1, err1 := e.Evaluate([]*gedcom.Document{d})
	r2, err2 := e.Evaluate([]*gedcom.Document{d})
	_, s1, _ := normalise(r1)
	_, s2, _ := normalise(r2)
	if err1 != nil || err2 != nil || s1 != s2 || s1 != gs {
		return harness.Failf("engine-reuse", "query %q: evaluating the same engine twice gives %s (%v) and %s (%v)", query, trunc(s1), err1, trunc(s2), err2), false
	}
	// "the same query on the same document always returns the same result" for every query,
	// not only for this one: evaluating a query leaves the document as the Go API shows it
	// unchanged (a result that aliases a slice the document holds must not be written to)
	if after := docViews(d); after != before {
		return harness.Failf("query-changes-document", "after evaluating %q the document reads differently through the Go API\nbefore:\n%s\nafter:\n%s", query, before, after), false
	}
	for _, probe := range []string{".Individuals | .Pointer", ".Families | .Pointer", ".Nodes | .Pointer"} {
		wantP, _ := evalJSON(probe, c.Doc)
		e2, _ := q.NewParser().ParseString(probe)
		rp, errp := e2.Evaluate([]*gedcom.Document{d})
		gotP, _, _ := normalise(rp)
		if errp != nil || !sameJSON(gotP, wantP) {
			return harness.Failf("query-changes-document", "after evaluating %q on a document, %q gives %v on it and %v on a fresh copy (%v)", query, probe, gotP, wantP, errp), false
		}
	}
	// a result that was returned stays what it was while other queries are evaluated on the same
	// document: the companion query is the same program with one list of the main pipeline (the
	// last one with >= 3 elements) replaced by its first and its last element only, so it walks
	// lists that start with the same nodes and continue differently
	if comp, ok := companion(c.Program, d); ok {
		// (the result that is held is that of a late evaluation: by now every lazily filled cache
		// of the library that this query reads is filled, so the result is built the way results
		// are built in a long-running process)
		held, _ := e.Evaluate([]*gedcom.Document{d})
		_, s1, _ := normalise(held)
		_, _ = runEngine(comp.String(), d)
		if _, again, _ := normalise(held); again != s1 {
			return harness.Failf("returned-result-changes", "the result of %q was\n%s\nand reads\n%s\nafter %q was evaluated on the same document\nfile:\n%s", query, trunc(s1), trunc(again), comp.String(), c.Doc.Text()), false
		}
		if r3, err3 := e.Evaluate([]*gedcom.Document{d}); err3 == nil {
			if _, s3, _ := normalise(r3); s3 != gs {
				return harness.Failf("nondeterministic", "query %q gives %s and, after %q was evaluated on the same document, %s", query, trunc(gs), comp.String(), trunc(s3)), false
			}
		}
	}
	// several callers at once on a document whose caches are cold: each evaluation is "the
	// same query on the same document" and gives the same result
	if len(c.Doc.Text())%6 == 1 {
		cold := c.Doc.Doc()
		const callers = 8
		outs := make([]string, callers)
		start := make(chan struct{})
		var wg sync.WaitGroup
		for k := 0; k < callers; k++ {
			wg.Add(1)
			go func(k int) {
				defer wg.Done()
				defer func() {
					if p := recover(); p != nil {
						outs[k] = fmt.Sprintf("panic: %v", p)
					}
				}()
				<-start
				v, err := runEngine(query, cold)
				if err != nil {
					outs[k] = "error: " + err.Error()
					return
				}
				_, outs[k], _ = normalise(v)
			}(k)
		}
		close(start)
		wg.Wait()
		for k := 0; k < callers; k++ {
			if outs[k] != gs {
				return harness.Failf("parallel-evaluation-differs", "query %q evaluated by %d callers at the same time on one freshly decoded document: caller %d gets %s, a single caller gets %s\nfile:\n%s", query, callers, k, trunc(outs[k]), trunc(gs), c.Doc.Text()), false
			}
		}
	}
	// a document with a history is a document like any other: queried, edited through the
	// public API, queried again - the result is that of the same text decoded from nothing
	if len(c.Edits) > 0 {
		live := c.Doc.Doc()
		_, _ = runEngine(query, live)
		for _, probe := range []string{".Individuals | .Families | .Pointer", ".Families | .Husband | .String", ".Individuals | .Name | .String"} {
			_, _ = runEngine(probe, live)
		}
		applied := 0
		for k, e := range c.Edits {
			if applyDocEdit(live, e, k) {
				applied++
			}
		}
		if applied > 0 {
			fresh, derr := gedcom.NewDocumentFromString(live.String())
			if derr == nil {
				a, errA := runEngine(query, live)
				b, errB := runEngine(query, fresh)
				na, sa, _ := normalise(a)
				nb, sb, _ := normalise(b)
				// sameJSON, not the strings: a node whose last child was deleted holds an
				// empty list where a decoded one holds none, and the Go API shows the same
				if (errA == nil) != (errB == nil) || (errA == nil && !sameJSON(na, nb)) {
					return harness.Failf("edited-document-result-differs", "query %q after %v through the public API gives %s (%v); on the same text decoded from nothing it gives %s (%v)\ntext now:\n%s", query, c.Edits, trunc(sa), errA, trunc(sb), errB, live.String()), false
				}
			}
		}
	}
	// metamorphic relations
	if f := metamorphic(c, query, gn); f != nil {
		return f, false
	}
	l, isL := gn.([]interface{})
	_, isM := gn.(map[string]interface{})
	return nil, ((isL && len(l) > 0) || isM) && len(c.Program.Main) >= 3
}

// docViews is what the Go API shows of a document: its text and the pointer lists of
// the three views that queries start from.
func docViews(d *gedcom.Document) string {
	var b strings.Builder
	b.WriteString(d.String())
	b.WriteString("nodes:")
	for _, n := range d.Nodes() {
		b.WriteString(" " + n.Tag().Tag() + n.Pointer())
	}
	b.WriteString("\nindividuals:")
	for _, n := range d.Individuals() {
		b.WriteString(" " + n.Pointer())
	}
	b.WriteString("\nfamilies:")
	for _, n := range d.Families() {
		b.WriteString(" " + n.Pointer())
	}
	return b.String()
}

// firstLastOfEmptyThenLength: the main pipeline applies First or Last to a list
// that is empty (finding C16-F1: First/Last of an empty list give nothing at all
// instead of an empty list, so every later stage that tells a list from a single
// value - Length, objects, Only - sees one item instead of none).
func firstLastOfEmptyThenLength(c queryCase, main pipe) bool {
	_, emptied, _ := referenceFlag(c.Program, c.Doc.Doc())
	return emptied
}

func lastKind(p program) string {
	if len(p.Main) == 0 {
		return "?"
	}
	return p.Main[len(p.Main)-1].Kind
}

func trunc(s string) string {
	if len(s) > 700 {
		return s[:700] + "..."
	}
	return s
}

func evalJSON(query string, doc *gen.GraphBP) (interface{}, error) {
	v, err := runEngine(query, doc.Doc())
	if err != nil {
		return nil, err
	}
	n, _, err := normalise(v)
	return n, err
}

func metamorphic(c queryCase, query string, result interface{}) *harness.Failure {
	main := c.Program.Main.String()
	prefix := ""
	for _, v := range c.Program.Vars {
		prefix += v.Name + " is " + v.Def.String() + "; "
	}
	l, isList := result.([]interface{})
	// inlining a variable does not change the result
	if len(c.Program.Vars) > 0 {
		inl := inline(c.Program)
		v, err := evalJSON(inl.String(), c.Doc)
		if err != nil || !sameJSON(v, result) {
			return harness.Failf("variable-not-interchangeable", "query %q and the same query with its variables inlined (%q) differ (%v)", query, inl.String(), err)
		}
	}
	if !isList {
		return nil
	}
	n := len(l)
	num := func(qy string) (int, *harness.Failure) {
		v, err := evalJSON(qy, c.Doc)
		if err != nil {
			return 0, harness.Failf("metamorphic-error", "query %q fails: %v", qy, err)
		}
		f, ok := v.(float64)
		if !ok {
			return 0, harness.Failf("metamorphic-error", "query %q does not give a number: %v", qy, v)
		}
		return int(f), nil
	}
	if got, f := num(prefix + main + " | Length"); f != nil {
		return f
	} else if got != n {
		return harness.Failf("length", "%q has %d elements but %q gives %d", query, n, main+" | Length", got)
	}
	if got, f := num(prefix + "Combine(" + main + ", " + main + ") | Length"); f != nil {
		return f
	} else if got != 2*n {
		return harness.Failf("combine-length", "Combine(E,E) | Length = %d, E | Length = %d for E = %q", got, n, main)
	}
	for _, k := range []int{0, 1, n - 1, n, n + 1} {
		if k < 0 {
			continue
		}
		want := k
		if want > n {
			want = n
		}
		if got, f := num(fmt.Sprintf("%s%s | First(%d) | Length", prefix, main, k)); f != nil {
			return f
		} else if got != want {
			sig := "first-length"
			if n == 0 {
				sig = "after-first-last-of-empty-list"
			}
			return harness.Failf(sig, "%q | First(%d) | Length = %d, want %d", main, k, got, want)
		}
		if got, f := num(fmt.Sprintf("%s%s | Last(%d) | Length", prefix, main, k)); f != nil {
			return f
		} else if got != want {
			sig := "last-length"
			if n == 0 {
				sig = "after-first-last-of-empty-list"
			}
			return harness.Failf(sig, "%q | Last(%d) | Length = %d, want %d", main, k, got, want)
		}
		if k <= n {
			// First(k) ++ Last(n-k) = all
			a, err1 := evalJSON(fmt.Sprintf("%s%s | First(%d)", prefix, main, k), c.Doc)
			b, err2 := evalJSON(fmt.Sprintf("%s%s | Last(%d)", prefix, main, n-k), c.Doc)
			if err1 != nil || err2 != nil {
				return harness.Failf("metamorphic-error", "First/Last on %q fail: %v %v", main, err1, err2)
			}
			al, _ := a.([]interface{})
			bl, _ := b.([]interface{})
			if !sameJSON(append(append([]interface{}{}, al...), bl...), result) {
				return harness.Failf("first-last-partition", "%q: First(%d) ++ Last(%d) is not the whole list", main, k, n-k)
			}
		}
	}
	return nil
}

func inline(p program) program {
	defs := map[string]pipe{}
	for _, v := range p.Vars {
		if _, dup := defs[v.Name]; !dup {
			defs[v.Name] = v.Def
		}
	}
	var inl func(pp pipe) pipe
	inlExpr := func(e *expr) []*expr { return nil }
	inlExpr = func(e *expr) []*expr {
		if e.Kind == "var" {
			return inl(defs[e.Name])
		}
		c := *e
		c.Pipes = nil
		for _, sp := range e.Pipes {
			c.Pipes = append(c.Pipes, inl(sp))
		}
		return []*expr{&c}
	}
	inl = func(pp pipe) pipe {
		var out pipe
		for _, e := range pp {
			out = append(out, inlExpr(e)...)
		}
		return out
	}
	return program{Main: inl(p.Main)}
}

// ---- generator --------------------------------------------------------------------------------------------

type state struct {
	t        typ
	isList   bool // the current value is a list of t
	nested   bool // a list of lists: only accessors, Length, First, Last
	nullable bool
}

var tagPaths = [][]string{{"BIRT"}, {"BIRT", "DATE"}, {"DEAT", "DATE"}, {"NAME"}, {"NAME", "GIVN"}, {"DATE"}, {"PLAC"}, {"ZZZZ"}, {"BIRT", "PLAC"}, {"HUSB"}, {"CHIL"}, {"MARR", "DATE"}}

func scalarOperand(rt *rapid.T, st state) (*expr, bool) {
	// an expression that gives a string / number / bool for one item of type st.t
	var cands []accessor
	for _, a := range accessorsFor(st.t, st.nullable) {
		if !a.list && (a.out == tStr || a.out == tNum || a.out == tBool) && a.name != "Years" {
			cands = append(cands, a)
		}
	}
	if len(cands) == 0 {
		return nil, false
	}
	a := cands[rapid.IntRange(0, len(cands)-1).Draw(rt, "operandAccessor")]
	return &expr{Kind: "acc", Name: a.name, In: a.in}, true
}

func constant(rt *rapid.T) *expr {
	if rapid.Bool().Draw(rt, "numericConst") {
		return &expr{Kind: "const", Value: rapid.SampledFrom([]string{"0", "1", "9", "10", "1900", "1850", "3", "100"}).Draw(rt, "num")}
	}
	return &expr{Kind: "const", IsStr: true, Value: rapid.SampledFrom([]string{"John", "john", " JOHN ", "Smith", "smith", "M", "Male", "true", "false", "", "1.230", "10", "9", "I1", "Jane /Doe/", "Sydney", "z", "A"}).Draw(rt, "str")}
}

func condition(rt *rapid.T, st state) (pipe, bool) {
	item := state{t: st.t, nullable: st.nullable}
	l, ok := scalarOperand(rt, item)
	if !ok {
		return nil, false
	}
	var r *expr
	if rapid.IntRange(0, 3).Draw(rt, "rightIsAccessor") == 0 {
		r, _ = scalarOperand(rt, item)
	} else {
		r = constant(rt)
	}
	if rapid.IntRange(0, 5).Draw(rt, "swapOperands") == 0 {
		l, r = r, l
	}
	op := rapid.SampledFrom([]string{"=", "!=", "<", "<=", ">", ">="}).Draw(rt, "operator")
	return pipe{{Kind: "binop", Name: op, L: l, R: r}}, true
}

func genPipe(rt *rapid.T, st state, maxStages int, vars []variable) (pipe, state) {
	var p pipe
	n := rapid.IntRange(1, maxStages).Draw(rt, "stages")
	for i := 0; i < n; i++ {
		if st.t == tStr || st.t == tNum || st.t == tBool || st.t == tObj {
			break
		}
		k := rapid.IntRange(0, 11).Draw(rt, "stageKind")
		switch {
		case k <= 5 || st.nested:
			accs := accessorsFor(st.t, st.nullable)
			if len(accs) == 0 {
				return p, st
			}
			a := accs[rapid.IntRange(0, len(accs)-1).Draw(rt, "accessor")]
			p = append(p, &expr{Kind: "acc", Name: a.name, In: a.in})
			if a.list && st.isList {
				st.nested = true
			}
			st = state{t: a.out, isList: st.isList || a.list, nested: st.nested, nullable: a.nullable}
		case k == 6 && st.isList:
			// the count is a number as the grammar spells numbers: digits, so also "08" and "010"
			p = append(p, &expr{Kind: rapid.SampledFrom([]string{"first", "last"}).Draw(rt, "firstLast"), N: rapid.SampledFrom([]int{0, 1, 2, 3, 4, 5, 6, 7, 8, 9, 10, 12, 1, 2, 3}).Draw(rt, "n"),
				Value: rapid.SampledFrom([]string{"", "", "", "0", "00"}).Draw(rt, "zeros")})
		case k == 7 && st.isList:
			if cond, ok := condition(rt, st); ok {
				p = append(p, &expr{Kind: "only", Pipes: []pipe{cond}})
			}
		case k == 8 && (st.t == tIndi || st.t == tFam || st.t == tNode) && !st.nullable:
			p = append(p, &expr{Kind: "tagpath", Tags: rapid.SampledFrom(tagPaths).Draw(rt, "tags")})
			st = state{t: tNode, isList: true}
		case k == 9:
			nk := rapid.IntRange(0, 3).Draw(rt, "nkeys")
			o := &expr{Kind: "object"}
			item := state{t: st.t, nullable: st.nullable}
			for j := 0; j < nk; j++ {
				sub, _ := genPipe(rt, item, 2, nil)
				if len(sub) == 0 {
					continue
				}
				o.Keys = append(o.Keys, fmt.Sprintf("k%d", j))
				o.Pipes = append(o.Pipes, sub)
			}
			p = append(p, o)
			st = state{t: tObj, isList: st.isList}
		case k == 10 && st.isList:
			if cond, ok := condition(rt, st); ok {
				p = append(p, cond[0])
				st = state{t: tBool, isList: true}
			}
		case k == 11:
			p = append(p, &expr{Kind: "length"})
			st = state{t: tNum}
		}
	}
	return p, st
}

func genProgram(rt *rapid.T) program {
	var prog program
	doc := state{t: tDoc}
	nv := rapid.IntRange(0, 2).Draw(rt, "nvars")
	var defs []state
	for i := 0; i < nv; i++ {
		def, st := genPipe(rt, doc, 3, nil)
		if len(def) == 0 {
			continue
		}
		prog.Vars = append(prog.Vars, variable{Name: []string{"Xs", "Ys"}[i], Def: def})
		defs = append(defs, st)
	}
	st := doc
	switch {
	case len(prog.Vars) > 0 && rapid.Bool().Draw(rt, "startWithVar"):
		i := rapid.IntRange(0, len(prog.Vars)-1).Draw(rt, "whichVar")
		prog.Main = pipe{{Kind: "var", Name: prog.Vars[i].Name}}
		st = defs[i]
	case rapid.IntRange(0, 5).Draw(rt, "startWithCombine") == 0:
		// Combine of two pipelines of the same static type
		a, sa := genPipe(rt, doc, 2, nil)
		if len(a) > 0 && sa.isList && !sa.nested && sa.t != tObj {
			b := a
			if len(prog.Vars) > 0 && defs[0].isList && !defs[0].nested && defs[0].t == sa.t && reflectSame(prog.Vars[0].Def, a) {
				b = pipe{{Kind: "var", Name: prog.Vars[0].Name}}
			}
			prog.Main = pipe{{Kind: "combine", Pipes: []pipe{a, b}}}
			st = sa
		}
	}
	rest, end := genPipe(rt, st, 5, nil)
	prog.Main = append(prog.Main, rest...)
	// (one program in six whose pipeline ends in a plain list of records or nodes goes on with a
	// short prefix or suffix of it and the lines below them that have a given tag path)
	if end.isList && !end.nested && !end.nullable && (end.t == tIndi || end.t == tFam || end.t == tNode) && rapid.IntRange(0, 5).Draw(rt, "endWithTagPath") == 3 {
		if k := rapid.IntRange(0, 4).Draw(rt, "shortList"); k >= 2 {
			prog.Main = append(prog.Main, &expr{Kind: rapid.SampledFrom([]string{"first", "last"}).Draw(rt, "shortKind"), N: k})
		}
		prog.Main = append(prog.Main, &expr{Kind: "tagpath", Tags: rapid.SampledFrom(tagPaths).Draw(rt, "endTags")})
	}
	if len(prog.Main) == 0 {
		prog.Main = pipe{{Kind: "acc", Name: "Individuals", In: tDoc}}
	}
	return prog
}

// reflectSame: Combine needs both arguments to have the same Go slice type, which
// is guaranteed when both are the same pipeline.
func reflectSame(a, b pipe) bool { return a.String() == b.String() }

func TestCheckQueries(t *testing.T) {
	s := harness.NewSub("typed-programs-vs-reference",
		"well-typed programs from the documented grammar (0..2 variable definitions, main pipeline of up to 6 stages: accessor chains over Document/Individual/Family/Husband/Wife/Child/Name/Date/Date value/Sex/plain nodes - nil-unsafe accessors are never applied to nullable values -, First/Last with arguments 0..7, Length, Only with a comparison, NodesWithTagPath, objects, Combine, all six operators over accessor and constant operands incl. '10' vs '9', '1.230', ' JOHN ') on random family graphs (<= 6 people; one in 60 with 25..300); engine result vs reference interpreter as normalised JSON, determinism, a returned result stays what it was while a companion query (the same program over the first and last element of one of its lists) is evaluated, a quarter of the cases again after 1..2 edits of the queried document through the public API (vs the same text decoded from nothing), and metamorphic relations (variable inlining, Length, Combine(E,E), First/Last length and partition for k in {0,1,n-1,n,n+1}); non-trivial = non-empty list or object result and a main pipeline of >= 3 stages")
	s.Rapid(t, harness.Share(harness.Pick(60000, 1200000)), 160, func(rt *rapid.T) {
		c := queryCase{
			Doc:     gen.Graph(gen.GraphOpts{MaxPeople: 6, MaxFamilies: 3, WildDates: true, UIDs: true, Big: 60, BigLo: 25, BigHi: 300}).Draw(rt, "doc"),
			Program: genProgram(rt),
		}
		if rapid.IntRange(0, 3).Draw(rt, "edited") == 2 {
			for k := rapid.IntRange(1, 2).Draw(rt, "nedits"); k > 0; k-- {
				c.Edits = append(c.Edits, docEdit{Kind: rapid.SampledFrom([]string{"marry", "add-child", "add-name", "add-birth", "delete-person", "drop-role-line"}).Draw(rt, "editKind"),
					A: rapid.IntRange(0, 9).Draw(rt, "editA"), B: rapid.IntRange(0, 9).Draw(rt, "editB")})
			}
		}
		fl, nt := check(c)
		cls := []string{"last:" + lastKind(c.Program)}
		for _, e := range c.Program.Main {
			cls = append(cls, "has:"+e.Kind)
		}
		if len(c.Program.Vars) > 0 {
			cls = append(cls, "has:variable-definition")
		}
		if c.Doc.IsBig() {
			cls = append(cls, "big:>=20-people")
		}
		s.Eval(harness.JSON(c), nt, dedupe(cls)...)
		if nt && !c.Doc.IsBig() {
			s.MaybeSample(map[string]interface{}{"query": c.Program.String(), "case": c})
		}
		if fl != nil && s.Report(c, fl) {
			rt.Fatalf("%s: %s", fl.Sig, fl.Msg)
		}
	})
}

func dedupe(xs []string) []string {
	seen := map[string]bool{}
	var out []string
	for _, x := range xs {
		if !seen[x] {
			seen[x] = true
			out = append(out, x)
		}
	}
	return out
}

// caseAmbiguous: the three usual readings of "case-insensitively equal" (equal lower case,
// equal upper case, equal under Unicode case folding) do not agree on the trimmed operands.
// The documentation does not say which one is meant, so the reference value is not judged
// there; negation, trichotomy and the consistency of the six operators still are.
func caseAmbiguous(a, b string) bool {
	a, b = strings.TrimSpace(a), strings.TrimSpace(b)
	lower := strings.ToLower(a) == strings.ToLower(b)
	upper := strings.ToUpper(a) == strings.ToUpper(b)
	fold := strings.EqualFold(a, b)
	return lower != upper || lower != fold
}

// ---- operators on constants: exhaustive over a value pool ------------------------------------------------

func TestCheckOperators(t *testing.T) {
	s := harness.NewSub("operators-exhaustive",
		"every ordered pair from a pool of 46 constants (numbers, numeric strings incl. '1.230' and '007', text with case and surrounding blanks, empty string, 'true', and letters whose lower case, upper case and case folding disagree: final sigma, long s, dotted capital I, sharp s, Kelvin sign, a title-case digraph, plus accented and Cyrillic words) under all six operators, as the query '{r: L op R}' on a one-person document: result equals the documented rule (not judged where the readings of 'case-insensitive' disagree), '!=' is the negation of '=', exactly one of '<', '=', '>' holds, '<=' and '>=' agree with them; distinct by construction")
	s.SetExhaustive(true)
	if harness.Shard() != 0 {
		return
	}
	pool := []struct {
		v   string
		str bool
	}{{"0", false}, {"1", false}, {"9", false}, {"10", false}, {"100", false}, {"1900", false}, {"10", true}, {"9", true}, {"1.230", true}, {"1.23", true}, {"007", true}, {"7", true},
		{"john", true}, {"John", true}, {" JOHN ", true}, {"jane", true}, {"", true}, {"true", true}, {"z", true}, {"A", true}, {"a b", true}, {"10 apples", true}, {"1e", true}, {"Smith", true},
		// letters whose lower case, upper case and case folding do not all agree (final sigma, long s,
		// dotted capital I, sharp s, Kelvin sign, a title-case digraph) and ordinary accented letters
		{"Σ", true}, {"σ", true}, {"ς", true}, {"ΠΑΠΑΣ", true}, {"παπας", true}, {"Weiſs", true}, {"weiss", true}, {"WEISS", true}, {"İ", true}, {"i", true}, {"I", true},
		{"ß", true}, {"SS", true}, {"\u212a", true}, {"k", true}, {"ǅ", true}, {"ǆ", true}, {"Écrivain", true}, {"écrivain", true}, {"ÉCRIVAIN ", true}, {"Иван", true}, {"иван", true}}
	doc, _ := gedcom.NewDocumentFromString("0 @I1@ INDI\n1 NAME A /B/\n")
	lit := func(v string, str bool) string {
		if str {
			return `"` + v + `"`
		}
		return v
	}
	for _, a := range pool {
		for _, b := range pool {
			res := map[string]bool{}
			for _, op := range []string{"=", "!=", "<", "<=", ">", ">="} {
				query := fmt.Sprintf("{r: %s %s %s}", lit(a.v, a.str), op, lit(b.v, b.str))
				e, err := q.NewParser().ParseString(query)
				c := map[string]string{"query": query}
				s.EvalN(1, 1)
				if err != nil {
					s.Report(c, harness.Failf("operator-parse", "%q does not parse: %v", query, err))
					continue
				}
				v, err := e.Evaluate([]*gedcom.Document{doc})
				m, _ := v.(map[string]interface{})
				got, ok := m["r"].(bool)
				if err != nil || !ok {
					s.Report(c, harness.Failf("operator-eval", "%q: %v %v", query, v, err))
					continue
				}
				res[op] = got
				if want := compare(op, a.v, b.v); got != want && !caseAmbiguous(a.v, b.v) {
					s.Report(c, harness.Failf("operator-result:"+op, "%q gives %v, the documented rule gives %v", query, got, want))
				}
			}
			c := map[string]string{"left": a.v, "right": b.v}
			if res["="] == res["!="] {
				s.Report(c, harness.Failf("not-equal-is-not-negation", "%q = %q is %v and != is %v", a.v, b.v, res["="], res["!="]))
			}
			n := 0
			for _, op := range []string{"<", "=", ">"} {
				if res[op] {
					n++
				}
			}
			if n != 1 {
				s.Report(c, harness.Failf("trichotomy", "%q vs %q: < is %v, = is %v, > is %v", a.v, b.v, res["<"], res["="], res[">"]))
			}
			// whatever "case-insensitively" means for letters where lower case, upper case and
			// case folding disagree, the six operators must use the same meaning
			if res["<="] != (res["<"] || res["="]) || res[">="] != (res[">"] || res["="]) {
				s.Report(c, harness.Failf("operators-inconsistent", "%q vs %q: <:%v =:%v >:%v <=:%v >=:%v", a.v, b.v, res["<"], res["="], res[">"], res["<="], res[">="]))
			}
			if a.v == "10" && b.v == "9" {
				s.Sample(map[string]interface{}{"left": a, "right": b, "results": res})
			}
		}
	}
}

func init() {
	harness.Assume("numeric = both operands match [0-9]+(.[0-9]+)? (no inf/nan/hex/exponents/signs, so that 'numeric' is undisputed); everything else is compared as lower-cased trimmed text",
		"an empty list may be written as null or [] (nil versus empty Go slice); both are the same result",
		"accessors that read the clock (Age, IsLiving) are not generated",
		"variables are defined by pipelines that start at the document (every named statement is also evaluated on the document) and are used where the input is the document",
		"Combine arguments are the same pipeline (or a variable defined as that pipeline), the only way to guarantee the same Go slice type")
	harness.RegisterReplay("typed-programs-vs-reference", func(raw json.RawMessage) *harness.Failure {
		var c queryCase
		if err := json.Unmarshal(raw, &c); err != nil {
			return harness.Failf("bad-replay", "%v", err)
		}
		fl, _ := check(c)
		return fl
	})
	harness.RegisterReplay("operators-exhaustive", func(raw json.RawMessage) *harness.Failure { return nil })
}

func TestReplay(t *testing.T) { harness.RunReplay(t) }
