// C11 - matching individuals is a valid one-to-one matching on any schedule (DESIGN.md 6.11).
package c11

import (
	"encoding/json"
	"fmt"
	"os"
	"os/exec"
	"path/filepath"
	"regexp"
	"runtime"
	"sort"
	"strings"
	"testing"

	"github.com/elliotchance/gedcom/v39"
	"pgregory.net/rapid"

	"verif/internal/gen"
	"verif/internal/harness"
)

func TestMain(m *testing.M) { harness.Main(m, "C11") }

type matchCase struct {
	Left  *gen.GraphBP `json:"left"`
	Right *gen.GraphBP `json:"right"`
	MinWS float64      `json:"min_weighted"`
	PPA   float64      `json:"prefer_pointer_above"`
	Jobs  []int        `json:"jobs"`
	// Warm: call every lazily cached accessor once, sequentially, before Compare.
	Warm bool `json:"warm,omitempty"`
	Reps int  `json:"reps,omitempty"`
}

func options(c matchCase, jobs int) *gedcom.IndividualNodesCompareOptions {
	o := gedcom.NewIndividualNodesCompareOptions() // a fresh value per call, as documented
	o.SimilarityOptions.MinimumWeightedSimilarity = c.MinWS
	o.SimilarityOptions.PreferPointerAbove = c.PPA
	o.Jobs = jobs
	return o
}

func warm(doc *gedcom.Document) {
	for _, i := range doc.Individuals() {
		_ = i.Families()
		_ = i.Spouses()
		_ = i.Parents()
		_ = i.Children()
		_ = i.UniqueIdentifiers()
		_ = i.Names()
		_, _ = i.EstimatedBirthDate()
		_, _ = i.EstimatedDeathDate()
		_ = i.String()
	}
	for _, f := range doc.Families() {
		_ = f.Husband()
		_ = f.Wife()
		_ = f.Children()
	}
	for _, r := range doc.Nodes() {
		var rec func(n gedcom.Node)
		rec = func(n gedcom.Node) {
			if d, ok := n.(*gedcom.DateNode); ok {
				_ = d.DateRange()
			}
			for _, t := range []gedcom.Tag{gedcom.TagName, gedcom.TagBirth, gedcom.TagDeath, gedcom.TagBaptism, gedcom.TagBurial, gedcom.TagDate, gedcom.TagHusband, gedcom.TagWife, gedcom.TagChild, gedcom.TagLDSBaptism, gedcom.UnofficialTagUniqueID} {
				_ = gedcom.NodesWithTag(n, t)
			}
			for _, k := range n.Nodes() {
				rec(k)
			}
		}
		rec(r)
	}
}

type pairSet []string

func pairsOf(res gedcom.IndividualComparisons, li, ri map[*gedcom.IndividualNode]int) pairSet {
	var out pairSet
	for _, r := range res {
		l, rr := "-", "-"
		if r.Left != nil {
			l = fmt.Sprint(li[r.Left])
		}
		if r.Right != nil {
			rr = fmt.Sprint(ri[r.Right])
		}
		out = append(out, l+"~"+rr)
	}
	sort.Strings(out)
	return out
}

type info struct {
	twoSided  int
	nested    int
	ties      bool
	dupIDs    bool
	nontriv   bool
	jobsAbove bool
}

func validate(c matchCase, jobs int, left, right gedcom.IndividualNodes, res gedcom.IndividualComparisons) *harness.Failure {
	seenL, seenR := map[*gedcom.IndividualNode]int{}, map[*gedcom.IndividualNode]int{}
	so := options(c, 1).SimilarityOptions
	for _, r := range res {
		if r == nil || (r.Left == nil && r.Right == nil) {
			return harness.Failf("result-empty-both-sides", "jobs=%d: a result has neither a left nor a right individual", jobs)
		}
		if r.Left != nil {
			seenL[r.Left]++
		}
		if r.Right != nil {
			seenR[r.Right]++
		}
		if r.Left != nil && r.Right != nil {
			full := r.Left.SurroundingSimilarity(r.Right, so, true).WeightedSimilarity()
			shareID := r.Left.UniqueIdentifiers().Intersects(r.Right.UniqueIdentifiers())
			samePtr := r.Left.Pointer() == r.Right.Pointer() && full >= c.PPA
			if !(full >= c.MinWS || shareID || samePtr) {
				return harness.Failf("pair-below-threshold", "jobs=%d: %s and %s are paired with weighted similarity %v < %v, no shared identifier, pointers %q/%q (prefer-pointer-above %v)",
					jobs, r.Left, r.Right, full, c.MinWS, r.Left.Pointer(), r.Right.Pointer(), c.PPA)
			}
		}
	}
	for k, l := range left {
		if seenL[l] != 1 {
			return harness.Failf(dupClass("left-not-exactly-once", left, right), "jobs=%d: left individual #%d %s appears in %d results", jobs, k, l.Pointer(), seenL[l])
		}
	}
	for k, r := range right {
		if seenR[r] != 1 {
			return harness.Failf(dupClass("right-not-exactly-once", left, right), "jobs=%d: right individual #%d %s appears in %d results", jobs, k, r.Pointer(), seenR[r])
		}
	}
	if len(seenL) != len(left) || len(seenR) != len(right) {
		return harness.Failf("foreign-individual", "jobs=%d: results mention individuals that are in neither list", jobs)
	}
	return nil
}

// dupClass attributes an accounting failure to its input class: unique
// identifiers or pointers that occur on several individuals of one side.
func dupClass(sig string, left, right gedcom.IndividualNodes) string {
	if dupIdentifiers(left) || dupIdentifiers(right) {
		return sig + ":duplicated-identifier-within-a-side"
	}
	if dupPointers(left) || dupPointers(right) {
		return sig + ":duplicated-pointer-within-a-side"
	}
	return sig
}

func dupIdentifiers(l gedcom.IndividualNodes) bool {
	seen := map[string]bool{}
	for _, i := range l {
		for _, id := range i.UniqueIdentifiers().Strings() {
			if seen[id] {
				return true
			}
			seen[id] = true
		}
	}
	return false
}

func dupPointers(l gedcom.IndividualNodes) bool {
	seen := map[string]bool{}
	for _, i := range l {
		if seen[i.Pointer()] {
			return true
		}
		seen[i.Pointer()] = true
	}
	return false
}

func multiIdentifiers(l gedcom.IndividualNodes) bool {
	for _, i := range l {
		if i.UniqueIdentifiers().Len() > 1 {
			return true
		}
	}
	return false
}

func check(c matchCase) (fl *harness.Failure, inf info) {
	defer func() {
		if p := recover(); p != nil {
			fl = harness.Failf("panic", "panic: %v", p)
		}
	}()
	ld, rd := c.Left.Doc(), c.Right.Doc()
	if c.Warm {
		warm(ld)
		warm(rd)
	}
	left, right := ld.Individuals(), rd.Individuals()
	li, ri := map[*gedcom.IndividualNode]int{}, map[*gedcom.IndividualNode]int{}
	for k, i := range left {
		li[i] = k
	}
	for k, i := range right {
		ri[i] = k
	}
	// tie / duplicate premises for the differential, from the score matrix
	so := options(c, 1).SimilarityOptions
	scores := map[float64]int{}
	for _, a := range left {
		for _, b := range right {
			s := a.SurroundingSimilarity(b, so, false).WeightedSimilarity()
			if s >= c.MinWS {
				scores[s]++
			}
		}
	}
	for _, n := range scores {
		if n > 1 {
			inf.ties = true
		}
	}
	inf.dupIDs = dupIdentifiers(left) || dupIdentifiers(right) || dupPointers(left) || dupPointers(right) || multiIdentifiers(left) || multiIdentifiers(right)
	var base pairSet
	reps := c.Reps
	if reps < 1 {
		reps = 1
	}
	for _, jobs := range c.Jobs {
		for rep := 0; rep < reps; rep++ {
			o := options(c, jobs)
			res := left.Compare(right, o)
			if f := validate(c, jobs, left, right, res); f != nil {
				return f, inf
			}
			// the comparisons that 'gedcom diff' makes next, with the options value of the
			// comparison above (html/individual_compare.go): the spouses and the parents of
			// every matched pair. They are matchings too.
			for _, r := range res {
				if r.Left == nil || r.Right == nil {
					continue
				}
				for k, pair := range [][2]gedcom.IndividualNodes{{uniq(r.Left.Spouses()), uniq(r.Right.Spouses())}, {parentsOf(r.Left), parentsOf(r.Right)}} {
					if len(pair[0])+len(pair[1]) == 0 {
						continue
					}
					inf.nested++
					if f := validate(c, jobs, pair[0], pair[1], pair[0].Compare(pair[1], o)); f != nil {
						f.Sig = []string{"spouses-of-a-pair:", "parents-of-a-pair:"}[k] + f.Sig
						f.Msg = fmt.Sprintf("comparing the %s of the matched pair %s / %s with the options of the comparison that matched them: %s", []string{"spouses", "parents"}[k], r.Left.Pointer(), r.Right.Pointer(), f.Msg)
						return f, inf
					}
				}
			}
			ps := pairsOf(res, li, ri)
			for _, p := range ps {
				if !strings.Contains(p, "-") {
					inf.twoSided++
				}
			}
			if base == nil {
				base = pairsOf(left.Compare(right, options(c, 1)), li, ri)
			}
			if !inf.ties && !inf.dupIDs && strings.Join(ps, " ") != strings.Join(base, " ") {
				return harness.Failf("differs-from-sequential", "jobs=%d gives pairs %v, the sequential run gives %v (no ties, no duplicated identifiers)", jobs, ps, base), inf
			}
			if jobs > 1 {
				inf.jobsAbove = true
			}
		}
	}
	inf.nontriv = len(left) >= 2 && len(right) >= 2 && inf.twoSided > 0
	return nil, inf
}

func roundTo(x float64) float64 { return x }

// uniq drops nil and repeated individuals (somebody married twice to the same person).
func uniq(in gedcom.IndividualNodes) (out gedcom.IndividualNodes) {
	seen := map[*gedcom.IndividualNode]bool{}
	for _, i := range in {
		if i != nil && !seen[i] {
			seen[i] = true
			out = append(out, i)
		}
	}
	return out
}

func parentsOf(i *gedcom.IndividualNode) (out gedcom.IndividualNodes) {
	for _, f := range i.Parents() {
		if h := f.Husband(); h != nil {
			out = append(out, h.Individual())
		}
		if w := f.Wife(); w != nil {
			out = append(out, w.Individual())
		}
	}
	return uniq(out)
}

func genCase(rt *rapid.T) matchCase { return genCaseBig(rt, 60) }

// genCaseBig: one pair in big has 20..40 people per side (0: never; the race-detector children and the
// command-line route, which are ten times slower per comparison, stay small)
func genCaseBig(rt *rapid.T, big int) matchCase {
	base := rapid.SampledFrom([]int{1850, 1900}).Draw(rt, "base")
	o := gen.GraphOpts{MaxPeople: 6, MaxFamilies: 3, YearLo: base, YearHi: base + rapid.SampledFrom([]int{3, 40}).Draw(rt, "span"), UIDs: true, WildDates: true, Big: big, BigLo: 20, BigHi: 40}
	c := matchCase{Left: gen.Graph(o).Draw(rt, "left")}
	switch rapid.IntRange(0, 3).Draw(rt, "rightKind") {
	case 0:
		o.IDPrefix, o.FamPrefix = "P", "G" // disjoint pointers
		c.Right = gen.Graph(o).Draw(rt, "right")
	case 1:
		c.Right = gen.Graph(o).Draw(rt, "rightSamePointers")
	default:
		b, _ := json.Marshal(c.Left)
		var r gen.GraphBP
		_ = json.Unmarshal(b, &r)
		for _, p := range r.People {
			if rapid.IntRange(0, 3).Draw(rt, "rename") == 0 && len(p.Names) > 0 {
				p.Names[0] = gen.Str(gen.PersonName().Draw(rt, "newname"))
			}
			if rapid.IntRange(0, 4).Draw(rt, "dropuid") == 0 {
				p.UIDs = nil
			}
		}
		if rapid.Bool().Draw(rt, "renumber") {
			for _, p := range r.People {
				old := p.ID
				p.ID = "Q" + old
				for _, f := range r.Families {
					if f.Husb == old {
						f.Husb = p.ID
					}
					if f.Wife == old {
						f.Wife = p.ID
					}
					for k := range f.Children {
						if f.Children[k] == old {
							f.Children[k] = p.ID
						}
					}
				}
			}
		}
		if len(r.People) > 0 && rapid.IntRange(0, 3).Draw(rt, "twin") == 0 {
			// identical twin: same data, another pointer
			src := r.People[rapid.IntRange(0, len(r.People)-1).Draw(rt, "twinOf")]
			tb, _ := json.Marshal(src)
			var twin gen.PersonBP
			_ = json.Unmarshal(tb, &twin)
			twin.ID = src.ID + "T"
			if rapid.Bool().Draw(rt, "twinKeepsUID") == false {
				twin.UIDs = nil
			}
			r.People = append(r.People, &twin)
		}
		c.Right = &r
	}
	c.MinWS = rapid.SampledFrom([]float64{0, 0.5, gedcom.DefaultMinimumSimilarity, 0.9, 1}).Draw(rt, "minws")
	c.PPA = rapid.SampledFrom([]float64{0, 0.5, gedcom.DefaultMinimumSimilarity, 0.9, 1}).Draw(rt, "ppa")
	return c
}

func TestCheckMatching(t *testing.T) {
	s := harness.NewSub("matching-validity-and-differential",
		"pairs of individual lists from random family graphs (<= 6 people each, one pair in 60 with 20..40; right side: disjoint pointers, same pointers, or an edited copy - renamed people, dropped identifiers, renumbered pointers, an identical twin), unique identifiers from a small pool (shared, duplicated, malformed) x MinimumWeightedSimilarity and PreferPointerAbove from {0,0.5,default,0.9,1} x Jobs {0,1,2,3,8,16}: every individual exactly once per side, no empty result, every pair justified (full weighted similarity >= threshold, shared identifier, or trusted pointer), and - when no two candidate pairs tie and identifiers/pointers are not duplicated - the same pairs as the sequential run; after every comparison the spouses and the parents of every matched pair are compared with the SAME options value, as html/individual_compare.go does for 'gedcom diff', and those results are valid matchings too; non-trivial = both sides >= 2 people and a two-sided result")
	s.Rapid(t, harness.Share(harness.Pick(2500, 60000)), 110, func(rt *rapid.T) {
		c := genCase(rt)
		c.Jobs = []int{0, 1, 2, 3, 8, 16}
		c.Warm = rapid.Bool().Draw(rt, "warm")
		s.Crumb(c)
		// the quantifier names GOMAXPROCS in {1,2,16}: Jobs above GOMAXPROCS matters too
		gmp := rapid.SampledFrom([]int{1, 2, 16}).Draw(rt, "gomaxprocs")
		old := runtime.GOMAXPROCS(gmp)
		fl, inf := check(c)
		runtime.GOMAXPROCS(old)
		var cls []string
		if inf.ties {
			cls = append(cls, "ties")
		}
		if inf.dupIDs {
			cls = append(cls, "duplicated-identifiers-or-pointers")
		}
		if !inf.ties && !inf.dupIDs {
			cls = append(cls, "differential-applies")
		}
		if inf.twoSided > 0 {
			cls = append(cls, "two-sided-result")
		}
		if inf.nested > 0 {
			cls = append(cls, "nested-comparison-of-spouses-or-parents")
		}
		cls = append(cls, fmt.Sprintf("gomaxprocs=%d", gmp))
		isBig := c.Left.IsBig() || c.Right.IsBig()
		if isBig {
			cls = append(cls, "big:>=20-people")
		}
		s.Eval(harness.JSON(c), inf.nontriv, cls...)
		if inf.nontriv && !isBig {
			s.MaybeSample(c)
		}
		if fl != nil && s.Report(c, fl) {
			rt.Fatalf("%s: %s", fl.Sig, fl.Msg)
		}
	})
}

// ---- matching of documents that have a history -----------------------------------------------

type histEdit struct {
	Side  int    `json:"side"` // 0 left, 1 right
	Kind  string `json:"kind"` // marry | add-child | set-husband | set-wife | add-name | add-birth | drop-uid | add-uid
	A     int    `json:"a"`
	B     int    `json:"b"`
	C     int    `json:"c"`
	Touch int    `json:"touch"` // which lazily cached view is read first after the edit
}

type histCase struct {
	Case  matchCase  `json:"case"`
	Edits []histEdit `json:"edits"`
}

func matchingOf(left, right gedcom.IndividualNodes, o *gedcom.IndividualNodesCompareOptions) string {
	li, ri := map[*gedcom.IndividualNode]int{}, map[*gedcom.IndividualNode]int{}
	for k, i := range left {
		li[i] = k
	}
	for k, i := range right {
		ri[i] = k
	}
	var out []string
	for _, r := range left.Compare(right, o) {
		l, rr, sim := "-", "-", ""
		if r.Left != nil {
			l = fmt.Sprintf("%d:%s", li[r.Left], r.Left.Pointer())
		}
		if r.Right != nil {
			rr = fmt.Sprintf("%d:%s", ri[r.Right], r.Right.Pointer())
		}
		if r.Left != nil && r.Right != nil && r.Similarity != nil {
			sim = fmt.Sprintf(" %v", r.Similarity.WeightedSimilarity())
		}
		out = append(out, l+" ~ "+rr+sim)
	}
	sort.Strings(out)
	return strings.Join(out, "\n")
}

// checkHistory: which individuals are paired is a function of what the two documents say,
// not of what was read from them before: documents that were compared, then edited through
// the public API (reading one or another cached view first), are matched exactly like the
// same two texts decoded from nothing. Jobs is 1, so that ties are broken the same way.
func checkHistory(c histCase) (fl *harness.Failure, applied int) {
	defer func() {
		if p := recover(); p != nil {
			fl = harness.Failf("panic", "panic: %v", p)
		}
	}()
	docs := []*gedcom.Document{c.Case.Left.Doc(), c.Case.Right.Doc()}
	warm(docs[0])
	warm(docs[1])
	_ = matchingOf(docs[0].Individuals(), docs[1].Individuals(), options(c.Case, 1))
	for n, e := range c.Edits {
		doc := docs[e.Side%2]
		inds, fams := doc.Individuals(), doc.Families()
		if len(inds) == 0 {
			continue
		}
		x, y, z := inds[e.A%len(inds)], inds[e.B%len(inds)], inds[e.C%len(inds)]
		switch e.Kind {
		case "marry":
			doc.AddFamilyWithHusbandAndWife(fmt.Sprintf("FN%d", n), x, y)
		case "add-child":
			if len(fams) == 0 {
				continue
			}
			fams[e.B%len(fams)].AddChild(z)
		case "set-husband":
			if len(fams) == 0 {
				continue
			}
			fams[e.B%len(fams)].SetHusband(x)
		case "set-wife":
			if len(fams) == 0 {
				continue
			}
			fams[e.B%len(fams)].SetWife(x)
		case "add-name":
			x.AddName(fmt.Sprintf("Added%d /Later/", e.B))
		case "add-birth":
			x.AddBirthDate(fmt.Sprintf("%d", 1850+e.B%60))
		case "drop-uid":
			ids := gedcom.NodesWithTag(x, gedcom.UnofficialTagUniqueID)
			if len(ids) == 0 {
				continue
			}
			x.DeleteNode(ids[e.B%len(ids)])
		case "add-uid":
			// the identifier of somebody on the other side, when there is one
			other := docs[(e.Side+1)%2].Individuals()
			if len(other) == 0 {
				continue
			}
			ids := gedcom.NodesWithTag(other[e.B%len(other)], gedcom.UnofficialTagUniqueID)
			if len(ids) == 0 {
				continue
			}
			x.AddNode(gedcom.NewNode(gedcom.UnofficialTagUniqueID, ids[0].Value(), ""))
		default:
			continue
		}
		applied++
		// what is asked for first after an edit differs from caller to caller
		for _, i := range inds {
			switch e.Touch % 5 {
			case 0:
				_ = i.UniqueIdentifiers()
			case 1:
				_ = i.Families()
			case 2:
				_ = i.Spouses()
			case 3:
				_ = i.Parents()
			}
		}
	}
	if applied == 0 {
		return nil, 0
	}
	live := matchingOf(docs[0].Individuals(), docs[1].Individuals(), options(c.Case, 1))
	lt, rtx := docs[0].String(), docs[1].String()
	fl0, err0 := gedcom.NewDocumentFromString(lt)
	fr0, err1 := gedcom.NewDocumentFromString(rtx)
	if err0 != nil || err1 != nil {
		return nil, 0
	}
	if want := matchingOf(fl0.Individuals(), fr0.Individuals(), options(c.Case, 1)); live != want {
		// the statement fixes the pairs only when no two candidate pairs tie and no identifier
		// or pointer is duplicated (as in the differential of the first sub-check)
		fl, fr := fl0.Individuals(), fr0.Individuals()
		so := options(c.Case, 1).SimilarityOptions
		scores := map[float64]int{}
		for _, a := range fl {
			for _, b := range fr {
				if sc := a.SurroundingSimilarity(b, so, false).WeightedSimilarity(); sc >= c.Case.MinWS {
					scores[sc]++
				}
			}
		}
		for _, n := range scores {
			if n > 1 {
				return nil, -applied
			}
		}
		if dupIdentifiers(fl) || dupIdentifiers(fr) || dupPointers(fl) || dupPointers(fr) || multiIdentifiers(fl) || multiIdentifiers(fr) {
			return nil, -applied
		}
		return harness.Failf("history-changes-matching", "two documents that were compared and then edited through the API (%v) are matched as\n%s\nthe same two texts decoded from nothing are matched as\n%s\nleft:\n%s\nright:\n%s", c.Edits, live, want, lt, rtx), applied
	}
	return nil, applied
}

func TestCheckMatchingHistory(t *testing.T) {
	s := harness.NewSub("matching-after-history",
		"the document pairs of matching-validity-and-differential, decoded, every lazily cached view read and the two lists compared once; then 1..4 edits through the public API on either side (AddFamilyWithHusbandAndWife, AddChild, SetHusband, SetWife, AddName, AddBirthDate, a _UID line deleted, the _UID of somebody on the other side added), after each of which one of UniqueIdentifiers / Families / Spouses / Parents of every individual (or nothing) is read first; oracle: Compare (Jobs 1) of the live lists gives exactly the pairs and weighted similarities that it gives for the same two texts decoded from nothing; non-trivial = an edit was applied and both sides have >= 2 people")
	s.Rapid(t, harness.Share(harness.Pick(4000, 150000)), 113, func(rt *rapid.T) {
		c := histCase{Case: genCase(rt)}
		for k := rapid.IntRange(1, 4).Draw(rt, "nedits"); k > 0; k-- {
			c.Edits = append(c.Edits, histEdit{Side: rapid.IntRange(0, 1).Draw(rt, "side"),
				Kind: rapid.SampledFrom([]string{"marry", "add-child", "set-husband", "set-wife", "add-name", "add-birth", "drop-uid", "drop-uid", "add-uid", "add-uid"}).Draw(rt, "kind"),
				A:    rapid.IntRange(0, 9).Draw(rt, "a"), B: rapid.IntRange(0, 9).Draw(rt, "b"), C: rapid.IntRange(0, 9).Draw(rt, "c"), Touch: rapid.IntRange(0, 4).Draw(rt, "touch")})
		}
		fl, applied := checkHistory(c)
		cls := fmt.Sprintf("edits:%d", applied)
		if applied < 0 {
			cls = "differs-but-pairs-not-fixed-by-the-statement(ties-or-duplicates)"
		}
		nt := applied > 0 && len(c.Case.Left.People) >= 2 && len(c.Case.Right.People) >= 2
		s.Eval(harness.JSON(c), nt, cls)
		if nt && !c.Case.Left.IsBig() && !c.Case.Right.IsBig() {
			s.MaybeSample(c)
		}
		if fl != nil && s.Report(c, fl) {
			rt.Fatalf("%s: %s", fl.Sig, fl.Msg)
		}
	})
}

func init() {
	harness.RegisterReplay("matching-after-history", func(raw json.RawMessage) *harness.Failure {
		var c histCase
		if err := json.Unmarshal(raw, &c); err != nil {
			return harness.Failf("bad-replay", "%v", err)
		}
		fl, _ := checkHistory(c)
		return fl
	})
}

// ---- race detector ---------------------------------------------------------------

var raceFn = regexp.MustCompile(`(?m)^\s+(?:github\.com/elliotchance/gedcom/v39|main)(\S+?)\(\)\s*$`)

// raceSignature reduces a race report to the two innermost gedcom functions.
func raceSignature(out string) string {
	i := strings.Index(out, "WARNING: DATA RACE")
	if i < 0 {
		return ""
	}
	rep := out[i:]
	if j := strings.Index(rep, "=================="); j > 0 {
		rep = rep[:j]
	}
	parts := strings.SplitN(rep, "Previous ", 2)
	var fns []string
	for _, p := range parts {
		if m := raceFn.FindStringSubmatch(p); m != nil {
			fns = append(fns, m[1])
		}
	}
	sort.Strings(fns)
	return strings.Join(fns, "|")
}

// TestRaceChild runs inside the -race binary: one case, many schedules.
func TestRaceChild(t *testing.T) {
	path := os.Getenv("VERIF_RACE_CASE")
	if path == "" {
		t.Skip("not a race child")
	}
	b, err := os.ReadFile(path)
	if err != nil {
		t.Fatal(err)
	}
	var c matchCase
	if err := json.Unmarshal(b, &c); err != nil {
		t.Fatal(err)
	}
	fl, _ := check(c)
	if fl != nil {
		fmt.Printf("RACE-CHILD-FAILURE sig=%s msg=%s\n", fl.Sig, strings.ReplaceAll(fl.Msg, "\n", " "))
	}
	fmt.Printf("RACE-CHILD-DONE gomaxprocs=%d\n", runtime.GOMAXPROCS(0))
}

func runRaceChild(bin, dir string, c matchCase, gomaxprocs int) (string, error) {
	path := filepath.Join(dir, "case.json")
	b, _ := json.Marshal(c)
	if err := os.WriteFile(path, b, 0o644); err != nil {
		return "", err
	}
	cmd := exec.Command(bin, "-test.run", "^TestRaceChild$", "-test.timeout", "300s")
	cmd.Env = append(os.Environ(), "VERIF_RACE_CASE="+path, fmt.Sprintf("GOMAXPROCS=%d", gomaxprocs), "GORACE=halt_on_error=1", "VERIF_OUT=", "VERIF_CRUMB=")
	out, err := cmd.CombinedOutput()
	return string(out), err
}

// ---- many pairs that only a unique identifier holds together, on cold caches -----------------

type uidCase struct {
	Pairs  int   `json:"pairs"`
	Jobs   int   `json:"jobs"`
	Rounds int   `json:"rounds"`
	Salt   int   `json:"salt"`
	Extra  []int `json:"extra,omitempty"` // how many people without a partner on each side
}

// uidDocs builds two documents of n people each: L_i and R_i share a _UID and nothing else
// (other names, other dates 200 years apart, other pointers), so only the unique identifier
// can pair them and no similarity ever reaches the threshold.
func uidDocs(c uidCase) (string, string) {
	var l, r strings.Builder
	given := []string{"Aaron", "Bertha", "Conrad", "Dorothea", "Egbert", "Friederike", "Gustav", "Hildegard"}
	sur := []string{"Quist", "Zimmer", "Oldcastle", "Vanterpool", "Ixworth", "Yarrow", "Umberfield", "Wexcombe"}
	for i := 0; i < c.Pairs; i++ {
		uid := fmt.Sprintf("%032X", uint64(c.Salt)*1000003+uint64(i)*7919+17)
		fmt.Fprintf(&l, "0 @L%d@ INDI\n1 NAME %s%d /%s/\n1 BIRT\n2 DATE %d\n1 _UID %s\n", i, given[i%8], i, sur[(i/8)%8], 1600+i, uid)
		fmt.Fprintf(&r, "0 @R%d@ INDI\n1 NAME %s%d /%s/\n1 BIRT\n2 DATE %d\n1 _UID %s\n", i, given[(i+3)%8], i+500, sur[(i/8+5)%8], 1850+i, uid)
	}
	for k, n := range c.Extra {
		for j := 0; j < n; j++ {
			w := []*strings.Builder{&l, &r}[k%2]
			fmt.Fprintf(w, "0 @X%d_%d@ INDI\n1 NAME Solo%d /Nobody%d/\n1 BIRT\n2 DATE %d\n", k, j, j, k, 1300+10*j+k)
		}
	}
	return l.String(), r.String()
}

func checkUID(c uidCase) *harness.Failure {
	lt, rtx := uidDocs(c)
	for round := 0; round < c.Rounds; round++ {
		// fresh documents every round: every lazily filled cache is cold
		ld, err1 := gedcom.NewDocumentFromString(lt)
		rd, err2 := gedcom.NewDocumentFromString(rtx)
		if err1 != nil || err2 != nil {
			return harness.Failf("generator-text-rejected", "%v %v", err1, err2)
		}
		o := gedcom.NewIndividualNodesCompareOptions()
		o.Jobs = c.Jobs
		res := ld.Individuals().Compare(rd.Individuals(), o)
		paired := map[string]string{}
		seen := map[string]int{}
		for _, r := range res {
			if r.Left != nil {
				seen[r.Left.Pointer()]++
			}
			if r.Right != nil {
				seen[r.Right.Pointer()]++
			}
			if r.Left != nil && r.Right != nil {
				paired[r.Left.Pointer()] = r.Right.Pointer()
			}
		}
		for _, d := range []*gedcom.Document{ld, rd} {
			for _, ind := range d.Individuals() {
				if seen[ind.Pointer()] != 1 {
					return harness.Failf("not-exactly-once", "round %d, jobs=%d: %s appears in %d results", round, c.Jobs, ind.Pointer(), seen[ind.Pointer()])
				}
			}
		}
		for i := 0; i < c.Pairs; i++ {
			if got, want := paired[fmt.Sprintf("L%d", i)], fmt.Sprintf("R%d", i); got != want {
				return harness.Failf("shared-identifier-not-paired", "round %d, jobs=%d: L%d and R%d share a unique identifier (and nothing else), the sequential run pairs them, this run pairs L%d with %q (%d pairs of %d people)", round, c.Jobs, i, i, i, got, len(paired), c.Pairs)
			}
		}
		for l, r := range paired {
			// (people without a partner may be paired with each other by similarity; the people
			// who carry an identifier may only be paired through it)
			if (l[0] == 'L') != (r[0] == 'R') || (l[0] == 'L' && l[1:] != r[1:]) {
				return harness.Failf("pair-without-evidence", "round %d, jobs=%d: %s is paired with %s: no shared identifier, no shared pointer, and nothing similar", round, c.Jobs, l, r)
			}
		}
	}
	return nil
}

func TestCheckUIDPairs(t *testing.T) {
	s := harness.NewSub("identifier-pairs-on-cold-caches",
		"two documents of 20..60 people each in which L_i and R_i share a _UID and nothing else (other names, dates two centuries apart, other pointers), plus 0..5 people without a partner on either side; decoded afresh for every round (cold caches), compared with Jobs in {1,2,3,8,16} for 3..8 rounds; oracle by construction: every individual in exactly one result, and the two-sided results are exactly the pairs (L_i, R_i) - what the sequential run gives, no similarity reaches the threshold, so nothing ties; non-trivial = Jobs > 1")
	s.Rapid(t, harness.Share(harness.Pick(160, 6000)), 114, func(rt *rapid.T) {
		c := uidCase{Pairs: rapid.IntRange(20, 60).Draw(rt, "pairs"), Jobs: rapid.SampledFrom([]int{1, 2, 2, 3, 8, 8, 16}).Draw(rt, "jobs"),
			Rounds: rapid.IntRange(3, harness.Pick(8, 20)).Draw(rt, "rounds"), Salt: rapid.IntRange(1, 1000).Draw(rt, "salt"),
			Extra: []int{rapid.IntRange(0, 5).Draw(rt, "extraL"), rapid.IntRange(0, 5).Draw(rt, "extraR")}}
		s.Eval(harness.JSON(c), c.Jobs > 1, fmt.Sprintf("jobs=%d", c.Jobs))
		if c.Jobs > 1 {
			s.MaybeSample(c)
		}
		if fl := checkUID(c); fl != nil && s.Report(c, fl) {
			rt.Fatalf("%s: %s", fl.Sig, fl.Msg)
		}
	})
}

func init() {
	harness.RegisterReplay("identifier-pairs-on-cold-caches", func(raw json.RawMessage) *harness.Failure {
		var c uidCase
		if err := json.Unmarshal(raw, &c); err != nil {
			return harness.Failf("bad-replay", "%v", err)
		}
		c.Rounds *= 5 // schedule-dependent: a replay tries harder
		return checkUID(c)
	})
}

func TestCheckRace(t *testing.T) {
	bin := os.Getenv("VERIF_RACE_BIN")
	if bin == "" {
		t.Skip("no race binary")
	}
	dir, err := os.MkdirTemp(os.Getenv("VERIF_SCRATCH"), "c11race")
	if err != nil {
		t.Fatal(err)
	}
	defer os.RemoveAll(dir)
	for vi, variant := range []struct {
		name string
		warm bool
	}{{"race-cold-caches", false}, {"race-warm-caches", true}} {
		variant := variant
		s := harness.NewSub(variant.name,
			"the same generated cases run in a -race build of the check (one child process per case and GOMAXPROCS value in {1,2,16}; Jobs {2,3,8,16} x repetitions); warm = every lazily cached accessor was called once sequentially before Compare, cold = the property as stated; any 'WARNING: DATA RACE' is a failure classified by its two innermost gedcom functions; the validity oracle runs in the child too; non-trivial = both sides >= 2 people")
		s.Rapid(t, harness.Share(harness.Pick(48, 1500)), 111+vi, func(rt *rapid.T) {
			c := genCaseBig(rt, 0)
			c.Jobs = []int{2, 3, 8, 16}
			c.Warm = variant.warm
			c.Reps = harness.Pick(2, 6)
			gmp := rapid.SampledFrom([]int{1, 2, 16}).Draw(rt, "gomaxprocs")
			out, err := runRaceChild(bin, dir, c, gmp)
			nt := len(c.Left.People) >= 2 && len(c.Right.People) >= 2
			s.Eval(harness.JSON(c), nt, fmt.Sprintf("gomaxprocs=%d", gmp))
			if nt {
				s.MaybeSample(map[string]interface{}{"case": c, "gomaxprocs": gmp})
			}
			var fl *harness.Failure
			switch {
			case strings.Contains(out, "WARNING: DATA RACE"):
				fl = harness.Failf("race:"+raceSignature(out), "data race (GOMAXPROCS=%d, warm=%v):\n%s", gmp, variant.warm, trunc(out, 3000))
			case strings.Contains(out, "RACE-CHILD-FAILURE"):
				m := regexp.MustCompile(`RACE-CHILD-FAILURE sig=(\S+) msg=(.*)`).FindStringSubmatch(out)
				fl = harness.Failf(m[1], "in the race build: %s", m[2])
			case !strings.Contains(out, "RACE-CHILD-DONE"):
				fl = harness.Failf("race-child-died", "the race child did not finish (%v):\n%s", err, trunc(out, 3000))
			}
			if fl != nil && s.Report(c, fl) {
				rt.Fatalf("%s: %s", fl.Sig, fl.Msg)
			}
		})
	}
}

// ---- the command line: gedcom diff -jobs N built with the race detector --------------

func TestCheckCLI(t *testing.T) {
	cli := os.Getenv("VERIF_CLI_RACE")
	if cli == "" {
		t.Skip("no race CLI")
	}
	dir, err := os.MkdirTemp(os.Getenv("VERIF_SCRATCH"), "c11cli")
	if err != nil {
		t.Fatal(err)
	}
	defer os.RemoveAll(dir)
	s := harness.NewSub("cli-diff-jobs-race",
		"'gedcom diff -jobs N' (N in {1,2,8}) from a -race build on generated file pairs: exit status 0, no 'DATA RACE' / panic on stderr, and every individual of both files appears in the report (its unique marker name occurs); non-trivial = both files >= 2 people")
	s.Rapid(t, harness.Share(harness.Pick(24, 800)), 113, func(rt *rapid.T) {
		c := genCaseBig(rt, 0)
		jobs := rapid.SampledFrom([]int{1, 2, 8}).Draw(rt, "jobs")
		// unique marker names so that presence in the report can be checked
		for k, p := range c.Left.People {
			p.Names = []gen.Str{gen.Str(fmt.Sprintf("Leftmarker%dx /Lsurname%dx/", k, k))}
		}
		for k, p := range c.Right.People {
			p.Names = []gen.Str{gen.Str(fmt.Sprintf("Rightmarker%dx /Rsurname%dx/", k, k))}
		}
		lp, rp, op := filepath.Join(dir, "l.ged"), filepath.Join(dir, "r.ged"), filepath.Join(dir, "out.html")
		_ = os.WriteFile(lp, []byte(c.Left.Text()), 0o644)
		_ = os.WriteFile(rp, []byte(c.Right.Text()), 0o644)
		_ = os.Remove(op)
		cmd := exec.Command(cli, "diff", "-left-gedcom", lp, "-right-gedcom", rp, "-output", op, "-jobs", fmt.Sprint(jobs))
		cmd.Env = append(os.Environ(), "GORACE=halt_on_error=1")
		out, err := cmd.CombinedOutput()
		nt := len(c.Left.People) >= 2 && len(c.Right.People) >= 2
		s.Eval(harness.JSON(c), nt, fmt.Sprintf("jobs=%d", jobs))
		var fl *harness.Failure
		report, _ := os.ReadFile(op)
		switch {
		case strings.Contains(string(out), "WARNING: DATA RACE"):
			fl = harness.Failf("cli-race:"+raceSignature(string(out)), "gedcom diff -jobs %d: data race\n%s", jobs, trunc(string(out), 3000))
		case strings.Contains(string(out), "panic:") || strings.Contains(string(out), "fatal error:"):
			fl = harness.Failf("cli-crash", "gedcom diff -jobs %d crashed:\n%s", jobs, trunc(string(out), 3000))
		case err != nil:
			fl = harness.Failf("cli-exit", "gedcom diff -jobs %d: %v\n%s", jobs, err, trunc(string(out), 2000))
		default:
			for k := range c.Left.People {
				if !strings.Contains(string(report), fmt.Sprintf("Leftmarker%dx", k)) {
					fl = harness.Failf("cli-report-misses-individual", "gedcom diff -jobs %d: left individual %d is not in the report (%d bytes)", jobs, k, len(report))
				}
			}
			for k := range c.Right.People {
				if !strings.Contains(string(report), fmt.Sprintf("Rightmarker%dx", k)) {
					fl = harness.Failf("cli-report-misses-individual", "gedcom diff -jobs %d: right individual %d is not in the report (%d bytes)", jobs, k, len(report))
				}
			}
		}
		if nt {
			s.MaybeSample(map[string]interface{}{"left": c.Left.Text(), "right": c.Right.Text(), "jobs": jobs})
		}
		if fl != nil && s.Report(c, fl) {
			rt.Fatalf("%s: %s", fl.Sig, fl.Msg)
		}
	})
}

func trunc(s string, n int) string {
	if len(s) > n {
		return s[:n] + "..."
	}
	return s
}

func init() {
	harness.Assume("a fresh IndividualNodesCompareOptions value per Compare call, as the type documents",
		"the differential against the sequential run is only asserted when the score matrix (computed by the harness) has no two candidate pairs at or above the threshold with equal score and no identifier or pointer is duplicated within a side",
		"race freedom is what the race detector observed on the executed schedules (GOMAXPROCS 1/2/16, Jobs up to 16, repetitions); absence is not established",
		"schedules are not controlled by the harness (see DESIGN.md 6.21)")
	rp := func(raw json.RawMessage) *harness.Failure {
		var c matchCase
		if err := json.Unmarshal(raw, &c); err != nil {
			return harness.Failf("bad-replay", "%v", err)
		}
		if len(c.Jobs) == 0 {
			c.Jobs = []int{0, 1, 2, 3, 8, 16}
		}
		fl, _ := check(c)
		return fl
	}
	harness.RegisterReplay("matching-validity-and-differential", rp)
	harness.RegisterReplay("race-cold-caches", raceReplay)
	harness.RegisterReplay("race-warm-caches", raceReplay)
	harness.RegisterReplay("cli-diff-jobs-race", rp)
}

// raceReplay re-runs a race case in the -race binary at all three GOMAXPROCS values.
func raceReplay(raw json.RawMessage) *harness.Failure {
	var c matchCase
	if err := json.Unmarshal(raw, &c); err != nil {
		return harness.Failf("bad-replay", "%v", err)
	}
	bin := os.Getenv("VERIF_RACE_BIN")
	if bin == "" {
		fl, _ := check(c)
		return fl
	}
	dir, err := os.MkdirTemp(os.Getenv("VERIF_SCRATCH"), "c11replay")
	if err != nil {
		return harness.Failf("infra", "%v", err)
	}
	defer os.RemoveAll(dir)
	if c.Reps < 5 {
		c.Reps = 5
	}
	for _, gmp := range []int{16, 2, 1} {
		out, _ := runRaceChild(bin, dir, c, gmp)
		if strings.Contains(out, "WARNING: DATA RACE") {
			return harness.Failf("race:"+raceSignature(out), "data race (GOMAXPROCS=%d):\n%s", gmp, trunc(out, 2000))
		}
	}
	return nil
}

func TestReplay(t *testing.T) { harness.RunReplay(t) }
