// C18 - file content can never change the structure of a published page (DESIGN.md 6.18).
package c18

import (
	"bytes"
	"encoding/json"
	"fmt"
	"regexp"
	"sort"
	"strings"
	"testing"

	"github.com/elliotchance/gedcom/v39"
	"github.com/elliotchance/gedcom/v39/html"
	"github.com/elliotchance/gedcom/v39/q"
	"pgregory.net/rapid"

	"verif/internal/gen"
	"verif/internal/harness"
	"verif/internal/pub"
	"verif/internal/ref"
)

func TestMain(m *testing.M) { harness.Main(m, "C18") }

// The taint: every value carries a unique token Tq<n>x<"'&>y. No spaces, slashes or
// commas, so that name and place splitting leave it intact.
const payload = `<"'&>`

type taintCase struct {
	// Seed structure: which optional parts exist
	People   int    `json:"people"`
	Families int    `json:"families"`
	Sources  int    `json:"sources"`
	Benign   bool   `json:"benign,omitempty"` // control: same document, harmless values
	Vis      string `json:"vis"`
	Mask     int    `json:"mask"`
	// Extras selects optional value kinds (bit set)
	Extras int `json:"extras"`
	// PointerTaint: pointers carry the payload too (they may not contain '@')
	PointerTaint bool `json:"pointer_taint,omitempty"`
}

type builder struct {
	n      int
	benign bool
	kinds  map[int]string
}

func (b *builder) tok(kind string) string {
	b.n++
	b.kinds[b.n] = kind
	if b.benign {
		return fmt.Sprintf("Tq%dxOKy", b.n)
	}
	return fmt.Sprintf("Tq%dx%sy", b.n, payload)
}

func (c taintCase) graph() (*gen.GraphBP, map[int]string) {
	b := &builder{benign: c.Benign, kinds: map[int]string{}}
	g := &gen.GraphBP{Header: true, BackLinks: true}
	ptr := func(prefix string, i int) string {
		if c.PointerTaint {
			return b.tok("pointer")
		}
		return fmt.Sprintf("%s%d", prefix, i)
	}
	ex := func(bit int) bool { return c.Extras&(1<<uint(bit)) != 0 }
	for i := 0; i < c.People; i++ {
		p := &gen.PersonBP{ID: ptr("I", i+1)}
		p.Names = append(p.Names, gen.Str(b.tok("given")+" /"+b.tok("surname")+"/ "+b.tok("suffix")))
		nameless := ex(7) && i%4 == 1 // somebody without any NAME: pages fall back to other values (the pointer)
		if nameless {
			// (no NAME line at all, a NAME line without a value, or one with empty slashes)
			p.Names = [][]gen.Str{nil, {""}, {"//"}}[(i/4+c.Mask+c.Extras)%3]
		}
		if ex(0) && !nameless {
			p.Names = append(p.Names, gen.Str(b.tok("given2")+" /"+b.tok("surname2")+"/"))
		}
		p.Sex = []string{b.tok("sex")}
		if i%2 == 1 {
			p.Sex = []string{"M"}
		}
		p.Events = append(p.Events,
			gen.EventBP{Tag: "BIRT", Value: gen.Str(b.tok("event-value")), Date: gen.Str(b.tok("date")), Place: gen.Str(b.tok("place") + ", " + b.tok("country")), HasDate: true})
		if !(ex(6) && i%3 == 2) {
			// (with bit 6 every third person has no death and no readable birth date: a living
			// person, who is rendered in some modes and orders of rendering and not in others)
			p.Events = append(p.Events, gen.EventBP{Tag: "DEAT", Date: "3 Sep 1901", Place: gen.Str(b.tok("place2")), HasDate: true,
				More: []*gen.NodeBP{{Tag: "CAUS", Value: gen.Str(b.tok("cause"))}, {Tag: "NOTE", Value: gen.Str(b.tok("event-note"))}}})
		}
		if ex(1) {
			p.Events = append(p.Events, gen.EventBP{Tag: "RESI", Date: gen.Str("Abt. " + b.tok("date-with-keyword")), Place: gen.Str(b.tok("place3")), HasDate: true},
				gen.EventBP{Tag: "OCCU", Value: gen.Str(b.tok("occupation"))}, gen.EventBP{Tag: "EVEN", Value: gen.Str(b.tok("even-value")), More: []*gen.NodeBP{{Tag: "TYPE", Value: gen.Str(b.tok("event-type"))}}})
		}
		p.Notes = []gen.Str{gen.Str(b.tok("note"))}
		if ex(2) {
			p.More = append(p.More, &gen.NodeBP{Tag: "NAME", Value: gen.Str(b.tok("name3")), Kids: []*gen.NodeBP{
				{Tag: "TYPE", Value: gen.Str(b.tok("name-type"))}, {Tag: "NICK", Value: gen.Str(b.tok("nickname"))}, {Tag: "NPFX", Value: gen.Str(b.tok("name-prefix"))},
				{Tag: "GIVN", Value: gen.Str(b.tok("givn"))}, {Tag: "SURN", Value: gen.Str(b.tok("surn"))}, {Tag: "SPFX", Value: gen.Str(b.tok("surname-prefix"))}, {Tag: "NSFX", Value: gen.Str(b.tok("name-suffix"))}, {Tag: "TITL", Value: gen.Str(b.tok("title"))}}})
		}
		if ex(3) {
			p.UIDs = []gen.Str{gen.Str(b.tok("uid"))}
			p.More = append(p.More, &gen.NodeBP{Tag: b.tokTag(), Value: gen.Str(b.tok("custom-tag-value"))}, &gen.NodeBP{Tag: "SOUR", Value: gen.Str(b.tok("inline-source"))})
		}
		g.People = append(g.People, p)
	}
	for i := 0; i < c.Families && len(g.People) > 0; i++ {
		f := &gen.FamilyBP{ID: ptr("F", i+1)}
		f.Husb = g.People[(2*i)%len(g.People)].ID
		f.Wife = g.People[(2*i+1)%len(g.People)].ID
		if len(g.People) > 2 {
			f.Children = []string{g.People[(2*i+2)%len(g.People)].ID}
		}
		f.Events = append(f.Events, gen.EventBP{Tag: "MARR", Date: gen.Str(b.tok("marriage-date")), Place: gen.Str(b.tok("marriage-place")), HasDate: true})
		if ex(4) {
			f.Events = append(f.Events, gen.EventBP{Tag: "DIV", Value: gen.Str(b.tok("divorce-value"))})
			f.More = append(f.More, &gen.NodeBP{Tag: "NOTE", Value: gen.Str(b.tok("family-note"))})
		}
		g.Families = append(g.Families, f)
	}
	for i := 0; i < c.Sources; i++ {
		s := &gen.SourceBP{ID: ptr("S", i+1), Title: gen.Str(b.tok("source-title"))}
		s.More = append(s.More, &gen.NodeBP{Tag: "AUTH", Value: gen.Str(b.tok("source-author"))}, &gen.NodeBP{Tag: "PUBL", Value: gen.Str(b.tok("source-publication"))},
			&gen.NodeBP{Tag: "TEXT", Value: gen.Str(b.tok("source-text"))}, &gen.NodeBP{Tag: "ABBR", Value: gen.Str(b.tok("source-abbreviation"))},
			&gen.NodeBP{Tag: "_X", Value: gen.Str(b.tok("source-custom")), Kids: []*gen.NodeBP{{Tag: "NOTE", Value: gen.Str(b.tok("source-nested"))}}})
		if ex(5) {
			s.Title = ""
		}
		g.Sources = append(g.Sources, s)
	}
	return g, b.kinds
}

// tags may only hold letters, digits and underscore: no payload possible
func (b *builder) tokTag() string { return "_CUSTOM" }

var tokenRe = regexp.MustCompile(`(?i)tq([0-9]+)x`)
var entityRe = regexp.MustCompile(`^&(#[0-9]+|#x[0-9a-fA-F]+|[a-zA-Z][a-zA-Z0-9]*);`)

type sink struct {
	page, kind, context, excerpt string
}

// context says where offset i of page s is: inside a tag (attribute) or in text.
func context(s string, i int) string {
	lt, gt := strings.LastIndexByte(s[:i], '<'), strings.LastIndexByte(s[:i], '>')
	if lt > gt {
		// inside a tag: name and the attribute whose value we are in
		tag := s[lt+1:]
		end := strings.IndexAny(tag, " \t\n/>")
		name := tag
		if end >= 0 {
			name = tag[:end]
		}
		seg := s[lt:i]
		attr := "?"
		if eq := strings.LastIndex(seg, "="); eq >= 0 {
			k := eq
			for k > 0 && seg[k-1] != ' ' && seg[k-1] != '\t' && seg[k-1] != '\n' {
				k--
			}
			attr = seg[k:eq]
		}
		return "attribute:" + strings.ToLower(name) + "." + strings.ToLower(attr)
	}
	// in text: the enclosing element
	open := s[:i]
	for {
		lt = strings.LastIndexByte(open, '<')
		if lt < 0 {
			return "text:?"
		}
		if lt+1 < len(open) && open[lt+1] != '/' {
			tag := open[lt+1:]
			end := strings.IndexAny(tag, " \t\n/>")
			if end >= 0 {
				tag = tag[:end]
			}
			return "text:" + strings.ToLower(tag)
		}
		open = open[:lt]
	}
}

// unescaped finds occurrences of a taint token whose payload is not entirely
// entity references.
func unescaped(page, content string, kinds map[int]string) []sink {
	var out []sink
	for _, m := range tokenRe.FindAllStringSubmatchIndex(content, -1) {
		id := 0
		fmt.Sscanf(content[m[2]:m[3]], "%d", &id)
		rest := content[m[1]:]
		if len(rest) > 80 {
			rest = rest[:80]
		}
		// what may not appear raw depends on where the token is: inside an attribute
		// value the double quote (all attributes are double-quoted) and, in event
		// handlers, the single quote; in element content quotes are harmless
		ctx := context(content, m[0])
		inAttr := strings.HasPrefix(ctx, "attribute:")
		handler := inAttr && strings.Contains(ctx, ".on")
		bad := ""
		j := 0
		for j < len(rest) {
			ch := rest[j]
			if ch == 'y' || ch == 'Y' {
				break
			}
			switch ch {
			case '<', '>':
				bad = string(ch)
			case '"':
				if inAttr {
					bad = string(ch)
				}
			case '\'':
				if handler {
					bad = string(ch)
				}
			case '&':
				if e := entityRe.FindString(rest[j:]); e != "" {
					j += len(e)
					continue
				}
				bad = "&"
			}
			if bad != "" {
				break
			}
			j++
		}
		if bad != "" {
			lo := m[0] - 60
			if lo < 0 {
				lo = 0
			}
			hi := m[1] + 40
			if hi > len(content) {
				hi = len(content)
			}
			out = append(out, sink{page: page, kind: kinds[id], context: context(content, m[0]), excerpt: content[lo:hi]})
		}
	}
	return out
}

type outputs map[string][]byte

func render(c taintCase) (out outputs, kinds map[int]string, fl *harness.Failure) {
	out = outputs{}
	g, kinds := c.graph()
	doc, err := gedcom.NewDocumentFromString(g.Text())
	if err != nil {
		return nil, nil, harness.Failf("generator-text-rejected", "%v\n%s", err, g.Text())
	}
	res := pub.Publish(doc, pub.FromMask(c.Mask, c.Vis, 1))
	if res.Panic != "" || len(res.Panics) > 0 || res.Err != nil {
		return nil, nil, harness.Failf("publish-failed", "publishing failed: panic=%q render panics=%v err=%v", res.Panic, res.Panics, res.Err)
	}
	for n, b := range res.Files {
		out["publish:"+n] = b
	}
	// the diff report of the document against an edited copy of itself
	g2, _ := c.graph()
	if len(g2.People) > 0 {
		g2.People[0].Notes = append(g2.People[0].Notes, "an extra note on the right")
		g2.People = append(g2.People, &gen.PersonBP{ID: "X99", Names: []gen.Str{"Only /Right/"}})
	}
	doc2, err := gedcom.NewDocumentFromString(g2.Text())
	if err != nil {
		return nil, nil, harness.Failf("generator-text-rejected", "%v", err)
	}
	diffs := func(label, vis string) *harness.Failure {
		// (one comparison rendered with every -show and -sort value, as a caller would who lets
		// the user switch views)
		comparisons := doc.Individuals().Compare(doc2.Individuals(), gedcom.NewIndividualNodesCompareOptions())
		for _, show := range []string{html.DiffPageShowOnlyMatches, html.DiffPageShowSubset, html.DiffPageShowAll} {
			for _, sortBy := range []string{html.DiffPageSortWrittenName, html.DiffPageSortHighestSimilarity} {
				progress := make(chan gedcom.Progress, 1000000)
				page := html.NewDiffPage(comparisons, &gedcom.FilterFlags{}, "", show, sortBy, progress, gedcom.NewIndividualNodesCompareOptions(), html.LivingVisibility(vis))
				var buf bytes.Buffer
				if _, err := page.WriteHTMLTo(&buf); err != nil {
					return harness.Failf("diff-page-error", "%v", err)
				}
				out[label+":"+show+"/"+sortBy] = buf.Bytes()
			}
		}
		return nil
	}
	if f := diffs("diff", c.Vis); f != nil {
		return nil, nil, f
	}
	// the same document objects rendered again with other options: what the earlier renderings
	// left behind (caches on the documents and their individuals, package-level state) must not
	// weaken the later ones
	vis2 := map[string]string{"show": "placeholder", "placeholder": "hide", "hide": "show"}[c.Vis]
	res2 := pub.Publish(doc, pub.All(vis2, 2))
	if res2.Panic != "" || len(res2.Panics) > 0 || res2.Err != nil {
		return nil, nil, harness.Failf("publish-failed", "publishing a second time (%s) failed: panic=%q render panics=%v err=%v", vis2, res2.Panic, res2.Panics, res2.Err)
	}
	for n, b := range res2.Files {
		out["publish-again-"+vis2+":"+n] = b
	}
	if f := diffs("diff-again-"+vis2, vis2); f != nil {
		return nil, nil, f
	}
	if c.Vis != "show" && vis2 != "show" {
		res3 := pub.Publish(doc, pub.All("show", 1))
		if res3.Panic != "" || len(res3.Panics) > 0 || res3.Err != nil {
			return nil, nil, harness.Failf("publish-failed", "publishing a third time (show) failed: panic=%q render panics=%v err=%v", res3.Panic, res3.Panics, res3.Err)
		}
		for n, b := range res3.Files {
			out["publish-last-show:"+n] = b
		}
		if f := diffs("diff-last-show", "show"); f != nil {
			return nil, nil, f
		}
	}
	// query results in HTML format
	for i, qy := range []string{`.Individuals | .Name | .String`, `.Individuals | { name: .Name | .String, born: .Birth | .String }`, `.Individuals | .Births`, `.Sources`, `.Individuals | First(1)`, `.Individuals | .Name | .Surname`} {
		e, err := q.NewParser().ParseString(qy)
		if err != nil {
			continue
		}
		v, err := e.Evaluate([]*gedcom.Document{doc})
		if err != nil {
			continue
		}
		// (the result goes through the other formatters first: what they leave behind in the
		// process - pooled encoders, settings - must not weaken the HTML formatter)
		var scratch bytes.Buffer
		_ = (&q.JSONFormatter{Writer: &scratch}).Write(v)
		_ = (&q.PrettyJSONFormatter{Writer: &scratch}).Write(v)
		_ = (&q.CSVFormatter{Writer: &scratch}).Write(v)
		var buf bytes.Buffer
		_ = (&q.HTMLFormatter{Writer: &buf}).Write(v)
		out[fmt.Sprintf("query-html:%d", i)] = buf.Bytes()
	}
	return out, kinds, nil
}

type stats struct {
	kindsReached int
	pages        int
}

func check(c taintCase) (fl *harness.Failure, st stats) {
	defer func() {
		if p := recover(); p != nil {
			fl = harness.Failf("panic", "panic: %v", p)
		}
	}()
	out, kinds, fl := render(c)
	if fl != nil {
		return fl, st
	}
	names := make([]string, 0, len(out))
	for n := range out {
		names = append(names, n)
	}
	sort.Strings(names)
	st.pages = len(names)
	reached := map[string]bool{}
	for _, n := range names {
		content := string(out[n])
		for _, m := range tokenRe.FindAllStringSubmatch(content, -1) {
			id := 0
			fmt.Sscanf(m[1], "%d", &id)
			reached[kinds[id]] = true
		}
		if sinks := unescaped(n, content, kinds); len(sinks) > 0 {
			s := sinks[0]
			return harness.Failf("unescaped:"+s.context, "%s: the %s value is written unescaped in %s (%d unescaped occurrences on this page): ...%s...", n, s.kind, s.context, len(sinks), s.excerpt), st
		}
	}
	st.kindsReached = len(reached)
	// structure: every page tokenises and is well nested; the benign control says
	// whether a structural problem is caused by content
	for _, n := range names {
		if strings.HasPrefix(n, "query-html:") {
			// several result fragments are written one after another: each fragment is a page
			continue
		}
		if err := ref.WellFormed(string(out[n])); err != nil {
			sig := "ill-formed-page"
			if c.Benign {
				sig = "ill-formed-page-even-with-benign-content"
			}
			return harness.Failf(sig, "%s is not well-nested HTML: %v", n, err), st
		}
	}
	return nil, st
}

func TestCheckTaint(t *testing.T) {
	s := harness.NewSub("tainted-documents",
		"documents in which every value kind (given names, surnames, suffixes, further names and all NAME parts, sex, event values, dates alone and behind a keyword, places and countries, causes, notes at three levels, occupations, event types, identifiers, custom tag values, inline sources, marriage and divorce data, source titles and five kinds of source properties incl. nested ones, optionally the pointers themselves) carries a unique token Tq<n>x<\"'&>y (1..4 people, 0..2 families, 0..2 sources; one document in 100 with 15..30 people, 5..12 families, 3..8 sources); published with a visibility and a random page-group mask, then the diff report (2 show x 2 sort) against an edited copy in that visibility, then the same document objects again with another visibility (all page groups, and the diff report), then a last time with everybody shown, and six queries in HTML format; in half of the documents every third person is living, so that it depends on the mode and the order of rendering whether a value was rendered before; oracle: wherever a token id occurs, the bytes up to the closing y contain no raw < > \" ' and no bare &, every page tokenises and is well nested; each case is also run with benign values as a control; non-trivial = at least 5 distinct value kinds reach an output")
	s.Rapid(t, harness.Share(harness.Pick(2000, 50000)), 180, func(rt *rapid.T) {
		c := taintCase{
			People: rapid.IntRange(1, 4).Draw(rt, "people"), Families: rapid.IntRange(0, 2).Draw(rt, "families"), Sources: rapid.IntRange(0, 2).Draw(rt, "sources"),
			Vis:  rapid.SampledFrom([]string{"show", "show", "hide", "placeholder"}).Draw(rt, "vis"),
			Mask: rapid.SampledFrom([]int{63, 63, 63, 1, 2, 4, 8, 16, 32, 62, 31}).Draw(rt, "mask"), Extras: rapid.IntRange(0, 255).Draw(rt, "extras"),
			PointerTaint: rapid.IntRange(0, 3).Draw(rt, "pointerTaint") == 0,
		}
		// (one document in 100 is big: 15..30 people, 5..12 families, 3..8 sources)
		if rapid.IntRange(0, 99).Draw(rt, "big") == 50 {
			c.People, c.Families, c.Sources = rapid.IntRange(15, 30).Draw(rt, "bigPeople"), rapid.IntRange(5, 12).Draw(rt, "bigFamilies"), rapid.IntRange(3, 8).Draw(rt, "bigSources")
		}
		for _, benign := range []bool{true, false} {
			c.Benign = benign
			s.Crumb(c)
			fl, st := check(c)
			cls := []string{"vis:" + c.Vis}
			if benign {
				cls = append(cls, "benign-control")
			}
			if c.PointerTaint {
				cls = append(cls, "tainted-pointers")
			}
			if c.People >= 15 {
				cls = append(cls, "big:>=15-people")
			}
			s.Eval(harness.JSON(c), st.kindsReached >= 5, cls...)
			if st.kindsReached >= 5 && !benign {
				s.MaybeSample(c)
			}
			if fl != nil && s.Report(c, fl) {
				rt.Fatalf("%s: %s", fl.Sig, fl.Msg)
			}
		}
	})
}

func init() {
	harness.Assume("'escaped' = between the token id and its closing y there is no raw < or >, no bare & (an & that does not start an entity reference), inside attribute values no raw double quote (all attributes are double-quoted) and inside event-handler attributes no raw single quote; quotes in element content cannot change the structure and are not judged",
		"well-nestedness is judged by internal/ref/html.go (void elements and '/>' self-closing; script/style as raw text); the HTML query formatter writes one fragment per result element, so only its token escaping is judged",
		"JavaScript inside onclick attributes is judged by the same rule (a raw quote is a violation)")
	harness.RegisterReplay("tainted-documents", func(raw json.RawMessage) *harness.Failure {
		var c taintCase
		if err := json.Unmarshal(raw, &c); err != nil {
			return harness.Failf("bad-replay", "%v", err)
		}
		fl, _ := check(c)
		return fl
	})
}

func TestReplay(t *testing.T) { harness.RunReplay(t) }
