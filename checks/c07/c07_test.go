// C07 - deep equality ignores order; deep copies are independent (DESIGN.md 6.7).
package c07

import (
	"encoding/json"
	"fmt"
	"testing"

	"github.com/elliotchance/gedcom/v39"
	"pgregory.net/rapid"

	"verif/internal/gen"
	"verif/internal/harness"
	"verif/internal/tu"
)

func TestMain(m *testing.M) { harness.Main(m, "C07") }

type permStep struct {
	Idx  int   `json:"idx"`
	Perm []int `json:"perm"`
}

type editSpec struct {
	Kind string `json:"kind"` // insert | delete | change
	Idx  int    `json:"idx"`  // node index (document order) - parent for insert
	Pos  int    `json:"pos"`  // child position for insert
}

type mutSpec struct {
	Target string `json:"target"` // copy | source
	Op     string `json:"op"`     // add | delete | setnil | addroot
	Idx    int    `json:"idx"`
}

type eqCase struct {
	Law   string      `json:"law"` // copy | perm | sym | edit
	Tree  *gen.NodeBP `json:"tree"`
	Other *gen.NodeBP `json:"other,omitempty"`
	Perms []permStep  `json:"perms,omitempty"`
	Edit  *editSpec   `json:"edit,omitempty"`
	Mut   *mutSpec    `json:"mut,omitempty"`
}

// ---- known-finding class predicates (applied to failing cases only) ----------

func dateConstraints(root *gen.NodeBP) (out []struct {
	v string
	c gedcom.DateConstraint
}) {
	root.Walk(0, func(n *gen.NodeBP, _ int) {
		if n.Tag == "DATE" {
			r := gedcom.NewDateRangeWithString(string(n.Value))
			if r.IsValid() {
				out = append(out, struct {
					v string
					c gedcom.DateConstraint
				}{string(n.Value), r.StartDate().Constraint})
				if r.EndDate().Constraint != r.StartDate().Constraint {
					out = append(out, struct {
						v string
						c gedcom.DateConstraint
					}{string(n.Value), r.EndDate().Constraint})
				}
			}
		}
	})
	return
}

// directionalDates: the trees contain a valid DATE value with a Before or After
// constraint at either end. Date.Equals is documented to treat such dates as equal
// to every date on the right side of them ("3 Sep 1943" equals "Bef. Oct 1943")
// and to be one-directional between two Before (or two After) dates, so it is not
// an equivalence relation; DeepEqual's sibling matching inherits that.
func directionalDates(trees ...*gen.NodeBP) bool {
	for _, t := range trees {
		if t == nil {
			continue
		}
		for _, d := range dateConstraints(t) {
			if d.c == gedcom.DateConstraintBefore || d.c == gedcom.DateConstraintAfter {
				return true
			}
		}
	}
	return false
}

func classify(sig string, trees ...*gen.NodeBP) string {
	if directionalDates(trees...) {
		return sig + ":directional-dates"
	}
	return sig
}

func safely(fn func() *harness.Failure) (f *harness.Failure) {
	defer func() {
		if p := recover(); p != nil {
			f = harness.Failf("panic", "panic: %v", p)
		}
	}()
	return fn()
}

// ---- laws ------------------------------------------------------------------

func applyPerms(root *gen.NodeBP, steps []permStep) *gen.NodeBP {
	out := root
	for _, s := range steps {
		out = gen.PermuteAt(out, s.Idx, s.Perm)
	}
	return out
}

func checkPerm(c eqCase) *harness.Failure {
	return safely(func() *harness.Failure {
		_, a, _ := gen.BuildTree(c.Tree.Clone())
		_, b, _ := gen.BuildTree(applyPerms(c.Tree, c.Perms))
		if !gedcom.DeepEqual(a, b) {
			return harness.Failf(classify("perm-not-equal", c.Tree), "tree is not DeepEqual to a re-ordering of itself:\n%s---\n%s", tu.Text(a), tu.Text(b))
		}
		if !gedcom.DeepEqual(b, a) {
			return harness.Failf(classify("perm-not-equal", c.Tree), "re-ordered tree is not DeepEqual to the original:\n%s---\n%s", tu.Text(b), tu.Text(a))
		}
		if !gedcom.DeepEqualNodes(a.Nodes(), b.Nodes()) {
			return harness.Failf(classify("perm-not-equal-nodes", c.Tree), "DeepEqualNodes is false for children of a tree and of its re-ordering:\n%s---\n%s", tu.Text(a), tu.Text(b))
		}
		return nil
	})
}

func checkSym(c eqCase) *harness.Failure {
	return safely(func() *harness.Failure {
		_, a, _ := gen.BuildTree(c.Tree.Clone())
		_, b, _ := gen.BuildTree(c.Other.Clone())
		ab, ba := gedcom.DeepEqual(a, b), gedcom.DeepEqual(b, a)
		if ab != ba {
			return harness.Failf(classify("asymmetric", c.Tree, c.Other), "DeepEqual(a,b)=%v but DeepEqual(b,a)=%v:\n%s---\n%s", ab, ba, tu.Text(a), tu.Text(b))
		}
		if x, y := gedcom.DeepEqualNodes(a.Nodes(), b.Nodes()), gedcom.DeepEqualNodes(b.Nodes(), a.Nodes()); x != y {
			return harness.Failf(classify("asymmetric-nodes", c.Tree, c.Other), "DeepEqualNodes(a,b)=%v but (b,a)=%v:\n%s---\n%s", x, y, tu.Text(a), tu.Text(b))
		}
		return nil
	})
}

var editSeq = 0

func applyEdit(root *gen.NodeBP, e *editSpec) (*gen.NodeBP, bool) {
	c := root.Clone()
	node, parent := gen.Nth(c, e.Idx)
	if node == nil {
		return nil, false
	}
	plain := func(n *gen.NodeBP) bool { return n.Tag == "_A" || n.Tag == "_B" || n.Tag == "OCCU" }
	switch e.Kind {
	case "insert":
		if node.Tag == "SEX" {
			return nil, false
		}
		leaf := &gen.NodeBP{Tag: "_NEW", Value: "fresh-value"}
		pos := e.Pos % (len(node.Kids) + 1)
		node.Kids = append(node.Kids[:pos], append([]*gen.NodeBP{leaf}, node.Kids[pos:]...)...)
	case "delete":
		if parent == nil {
			return nil, false
		}
		for i, k := range parent.Kids {
			if k == node {
				parent.Kids = append(parent.Kids[:i], parent.Kids[i+1:]...)
				break
			}
		}
	case "change":
		if !plain(node) {
			return nil, false
		}
		node.Value = "fresh-value"
	default:
		return nil, false
	}
	return c, true
}

func checkEdit(c eqCase) *harness.Failure {
	return safely(func() *harness.Failure {
		edited, ok := applyEdit(c.Tree, c.Edit)
		if !ok {
			return nil
		}
		_, a, _ := gen.BuildTree(c.Tree.Clone())
		_, b, _ := gen.BuildTree(edited)
		if gedcom.DeepEqual(a, b) || gedcom.DeepEqual(b, a) {
			return harness.Failf("edit-still-equal:"+c.Edit.Kind, "trees that differ by a %sd plain node are DeepEqual (a,b)=%v (b,a)=%v:\n%s---\n%s", c.Edit.Kind, gedcom.DeepEqual(a, b), gedcom.DeepEqual(b, a), tu.Text(a), tu.Text(b))
		}
		return nil
	})
}

func malformedUID(root *gen.NodeBP) bool {
	bad := false
	root.Walk(0, func(n *gen.NodeBP, _ int) {
		if n.Tag == "_UID" {
			if _, err := gedcom.NewUniqueIDNode(string(n.Value)).UUID(); err != nil {
				bad = true
			}
		}
	})
	return bad
}

func checkCopy(c eqCase) *harness.Failure {
	return safely(func() *harness.Failure {
		doc, src, _ := gen.BuildTree(c.Tree.Clone())
		srcText, docText := tu.Text(src), doc.String()
		srcID := tu.NewIdentity(src)
		target := gedcom.NewDocument()
		cp := gedcom.DeepCopy(src, target)
		if gedcom.IsNil(cp) {
			return harness.Failf("copy-nil", "DeepCopy returned nil for\n%s", srcText)
		}
		if got := tu.Text(src); got != srcText {
			return harness.Failf("copy-changed-source", "copying changed the source:\n%s---\n%s", srcText, got)
		}
		if got := doc.String(); got != docText {
			return harness.Failf("copy-changed-source-document", "copying into another document changed the source document:\n%s---\n%s", docText, got)
		}
		cpText := tu.Text(cp)
		if cpText != srcText {
			return harness.Failf("copy-text-differs", "copy serialises differently:\n%s---\n%s", srcText, cpText)
		}
		if shared := srcID.Shared(cp); shared != nil {
			return harness.Failf("copy-shares-node", "copy shares node %s with its source", tu.Describe(shared))
		}
		sigExtra := ""
		if malformedUID(c.Tree) {
			sigExtra = ":malformed-uid"
		}
		if !gedcom.DeepEqual(src, cp) || !gedcom.DeepEqual(cp, src) {
			return harness.Failf(classify("copy-not-equal"+sigExtra, c.Tree), "tree is not DeepEqual to its own deep copy (src,copy)=%v (copy,src)=%v:\n%s", gedcom.DeepEqual(src, cp), gedcom.DeepEqual(cp, src), srcText)
		}
		if c.Mut == nil {
			return nil
		}
		// mutate one side, the other must not change
		victim, other, otherText := cp, src, srcText
		if c.Mut.Target == "source" {
			victim, other, otherText = src, cp, cpText
		}
		nodes := tu.All(victim)
		n := nodes[c.Mut.Idx%len(nodes)]
		switch c.Mut.Op {
		case "add":
			n.AddNode(gedcom.NewNode(gedcom.TagFromString("_MUT"), "added", ""))
		case "delete":
			if kids := n.Nodes(); len(kids) > 0 {
				n.DeleteNode(kids[len(kids)/2])
			} else {
				n.AddNode(gedcom.NewNode(gedcom.TagFromString("_MUT"), "added", ""))
			}
		case "setnil":
			n.SetNodes(nil)
			n.AddNode(gedcom.NewNode(gedcom.TagFromString("_MUT"), "added", ""))
		case "grandchild":
			if kids := n.Nodes(); len(kids) > 0 {
				kids[0].AddNode(gedcom.NewNode(gedcom.TagFromString("_MUT"), "added", ""))
			} else {
				n.AddNode(gedcom.NewNode(gedcom.TagFromString("_MUT"), "added", ""))
			}
		}
		if tu.Text(victim) == otherText {
			return harness.Failf("oracle-mutation-noop", "mutation %+v had no effect", *c.Mut)
		}
		if got := tu.Text(other); got != otherText {
			return harness.Failf("copy-not-independent:"+c.Mut.Target, "changing the %s (%s at node %d) changed the other tree:\n%s---\n%s", c.Mut.Target, c.Mut.Op, c.Mut.Idx, otherText, got)
		}
		return nil
	})
}

func check(c eqCase) *harness.Failure {
	switch c.Law {
	case "copy":
		return checkCopy(c)
	case "perm":
		return checkPerm(c)
	case "sym":
		return checkSym(c)
	case "edit":
		return checkEdit(c)
	}
	return harness.Failf("bad-case", "unknown law %q", c.Law)
}

func kinds(root *gen.NodeBP) []string {
	seen := map[string]bool{}
	var out []string
	root.Walk(0, func(n *gen.NodeBP, _ int) {
		k := ""
		switch n.Tag {
		case "DATE", "_UID", "RESI", "EVEN", "INDI", "FAM", "NAME", "PLAC":
			k = n.Tag
		case "BIRT", "DEAT", "BURI", "BAPM":
			k = "BIRT-like"
		case "HUSB", "WIFE", "CHIL":
			k = "role"
		}
		if k != "" && !seen[k] {
			seen[k] = true
			out = append(out, "kind:"+k)
		}
	})
	return out
}

func nontrivial(root *gen.NodeBP) bool {
	if root.Count() < 3 {
		return false
	}
	if len(kinds(root)) > 0 {
		return true
	}
	dup := false
	root.Walk(0, func(n *gen.NodeBP, _ int) {
		for i := range n.Kids {
			for j := i + 1; j < len(n.Kids); j++ {
				if n.Kids[i].Tag == n.Kids[j].Tag && n.Kids[i].Value == n.Kids[j].Value {
					dup = true
				}
			}
		}
	})
	return dup
}

func TestCheckLaws(t *testing.T) {
	s := harness.NewSub("equality-laws",
		"random trees (<= 25 nodes, depth <= 4; one in 40 with 40..160 further children under one node: plain, exact DATE, _UID and RESI nodes over a pool half their number) over the node kinds with their own equality rule (plain, BIRT/DEAT/BURI/BAPM, RESI, EVEN, DATE incl. constrained/phrase/unparsable/alternative spellings, _UID well-formed/with checksum/malformed, NAME, PLAC, INDI and FAM in a document, role nodes), biased to same-kind and duplicate siblings; per tree: deep copy + aliasing mutation, ALL permutations of every child list with <= 4 entries plus random shuffles at every level, symmetry against an independent tree / an edited copy, and insert/delete/change edits at random positions; non-trivial = tree has >= 3 nodes and a non-plain kind or duplicate siblings; distinct by (law, case)")
	s.Rapid(t, harness.Share(harness.Pick(40000, 4000000)), 70, func(rt *rapid.T) {
		tree := gen.EqTree(gen.EqTreeOpts{MaxNodes: 25, Roles: true, Wide: 40}).Draw(rt, "tree")
		nt := nontrivial(tree)
		base := kinds(tree)
		wide := gen.MaxFanout(tree) >= 40
		if wide {
			base = append(base, "wide:>=40-siblings")
		}
		if gen.HasSameKindSiblings(tree) {
			base = append(base, "same-kind-siblings")
		}
		run := func(c eqCase, extra ...string) {
			cls := append(append([]string{"law:" + c.Law}, base...), extra...)
			s.Eval(harness.JSON(c), nt, cls...)
			if nt && !wide {
				s.MaybeSample(c)
			}
			if fl := check(c); fl != nil && s.Report(c, fl) {
				rt.Fatalf("%s: %s", fl.Sig, fl.Msg)
			}
		}
		total := tree.Count()
		// copy + aliasing
		run(eqCase{Law: "copy", Tree: tree, Mut: &mutSpec{
			Target: rapid.SampledFrom([]string{"copy", "source"}).Draw(rt, "muttarget"),
			Op:     rapid.SampledFrom([]string{"add", "delete", "setnil", "grandchild"}).Draw(rt, "mutop"),
			Idx:    rapid.IntRange(0, total-1).Draw(rt, "mutidx")}})
		// exhaustive permutations of every small child list
		i := 0
		tree.Walk(0, func(n *gen.NodeBP, _ int) {
			idx := i
			i++
			if k := len(n.Kids); k >= 2 && k <= 4 {
				for _, p := range gen.Permutations(k)[1:] {
					run(eqCase{Law: "perm", Tree: tree, Perms: []permStep{{idx, p}}}, "perm:exhaustive-at-node")
				}
			}
		})
		// random shuffle of every level at once
		var steps []permStep
		i = 0
		tree.Walk(0, func(n *gen.NodeBP, _ int) {
			idx := i
			i++
			if k := len(n.Kids); k >= 2 {
				steps = append(steps, permStep{idx, rapid.Permutation(gen.Permutations(1)[0][:0:0]).Draw(rt, "noop")})
				p := make([]int, k)
				for a := range p {
					p[a] = a
				}
				steps[len(steps)-1].Perm = rapid.Permutation(p).Draw(rt, fmt.Sprintf("perm%d", idx))
			}
		})
		if len(steps) > 0 {
			run(eqCase{Law: "perm", Tree: tree, Perms: steps}, "perm:all-levels")
		}
		// symmetry
		other := gen.EqTree(gen.EqTreeOpts{MaxNodes: 12, Roots: []string{tree.Tag}, Roles: true}).Draw(rt, "other")
		run(eqCase{Law: "sym", Tree: tree, Other: other}, "sym:independent")
		e := &editSpec{Kind: rapid.SampledFrom([]string{"insert", "delete", "change"}).Draw(rt, "ekind"), Idx: rapid.IntRange(0, total-1).Draw(rt, "eidx"), Pos: rapid.IntRange(0, 5).Draw(rt, "epos")}
		if e.Kind == "change" {
			var plainIdx []int
			j := 0
			tree.Walk(0, func(n *gen.NodeBP, _ int) {
				if n.Tag == "_A" || n.Tag == "_B" || n.Tag == "OCCU" {
					plainIdx = append(plainIdx, j)
				}
				j++
			})
			if len(plainIdx) > 0 {
				e.Idx = rapid.SampledFrom(plainIdx).Draw(rt, "plainidx")
			}
		}
		if edited, ok := applyEdit(tree, e); ok {
			run(eqCase{Law: "sym", Tree: tree, Other: edited}, "sym:edited-copy")
			run(eqCase{Law: "edit", Tree: tree, Edit: e}, "edit:"+e.Kind)
		}
		// same-kind value swap: replace one DATE / _UID value by another of the pool
		sw := tree.Clone()
		swapped := false
		sw.Walk(0, func(n *gen.NodeBP, _ int) {
			if !swapped && (n.Tag == "DATE" || n.Tag == "_UID") && rapid.IntRange(0, 1).Draw(rt, "swaphere") == 0 {
				pool := gen.EqDateValues
				if n.Tag == "_UID" {
					pool = gen.EqUIDValues
				}
				n.Value = gen.Str(rapid.SampledFrom(pool).Draw(rt, "swapv"))
				swapped = true
			}
		})
		if swapped {
			run(eqCase{Law: "sym", Tree: tree, Other: sw}, "sym:same-kind-value-swap")
		}
	})
}

// ---- equality and copies of values that have a history -------------------------------------

type histCase struct {
	Left  *gen.NodeBP  `json:"left"`
	Right *gen.NodeBP  `json:"right"`
	Warm  int          `json:"warm"`
	Edits []gen.EditOp `json:"edits"`
}

type histView struct {
	lr, rl, nodes, selfCopy bool
	copyText                string
}

func viewOf(l, r gedcom.Node) histView {
	cp := gedcom.DeepCopy(l, gedcom.NewDocument())
	return histView{lr: gedcom.DeepEqual(l, r), rl: gedcom.DeepEqual(r, l), nodes: gedcom.DeepEqualNodes(l.Nodes(), r.Nodes()),
		selfCopy: gedcom.DeepEqual(l, cp), copyText: tu.Text(cp)}
}

// checkHistory: equality and copying are functions of the content of the trees, not of what
// was done with them before (compared, copied, then edited through the public API).
func checkHistory(c histCase) (fl *harness.Failure, edited int) {
	defer func() {
		if p := recover(); p != nil {
			fl = harness.Failf("panic", "panic: %v", p)
		}
	}()
	_, l, _ := gen.BuildTree(c.Left)
	_, r, _ := gen.BuildTree(c.Right)
	warm := func() {
		_ = viewOf(l, r)
		for _, a := range tu.All(l) {
			for _, b := range tu.All(r) {
				_ = a.Equals(b)
			}
		}
	}
	for i := 0; i < c.Warm; i++ {
		warm()
	}
	for _, e := range c.Edits {
		if e.Apply(l, r) {
			edited++
			warm()
		}
	}
	// live first: building anything resets process-wide caches
	lbp, rbp := gen.FromNode(l), gen.FromNode(r)
	lt, rtx := tu.Text(l), tu.Text(r)
	live := viewOf(l, r)
	_, l2, _ := gen.BuildTree(lbp)
	_, r2, _ := gen.BuildTree(rbp)
	if lt != tu.Text(l2) || rtx != tu.Text(r2) {
		return nil, 0
	}
	fresh := viewOf(l2, r2)
	if live.copyText != lt {
		return harness.Failf("history:copy-text-differs", "a deep copy of a tree that was compared and edited before serialises differently from the tree\ntree:\n%scopy:\n%s", lt, live.copyText), edited
	}
	if live != fresh {
		return harness.Failf("history-changes-equality", "DeepEqual(l,r)/DeepEqual(r,l)/DeepEqualNodes/DeepEqual(l,copy) are %v %v %v %v for trees that were compared and edited before, and %v %v %v %v for the same trees built from nothing\nleft:\n%sright:\n%s",
			live.lr, live.rl, live.nodes, live.selfCopy, fresh.lr, fresh.rl, fresh.nodes, fresh.selfCopy, lt, rtx), edited
	}
	return nil, edited
}

func TestCheckEqualityHistory(t *testing.T) {
	s := harness.NewSub("equality-after-history",
		"pairs of trees (a tree and its permuted copy, or independent trees with the same root tag) that are first compared and copied (DeepEqual both ways, DeepEqualNodes, DeepCopy, Equals of every node with every node; 1..2 rounds), then edited through the public API (1..4 edits as in C08/C09), comparing again after every edit; oracle: the four verdicts and the text of a deep copy of the live trees are exactly what the same trees built from nothing give; non-trivial = at least one edit changed a tree and the trees have >= 6 nodes together")
	s.Rapid(t, harness.Share(harness.Pick(20000, 2000000)), 71, func(rt *rapid.T) {
		l := gen.EqTree(gen.EqTreeOpts{MaxNodes: 14}).Draw(rt, "left")
		var r *gen.NodeBP
		if rapid.Bool().Draw(rt, "copy") {
			r = l.Clone()
			if len(r.Kids) > 1 {
				r.Kids = rapid.Permutation(r.Kids).Draw(rt, "perm")
			}
		} else {
			r = gen.EqTree(gen.EqTreeOpts{MaxNodes: 14, Roots: []string{l.Tag}}).Draw(rt, "right")
		}
		c := histCase{Left: l, Right: r, Warm: rapid.IntRange(1, 2).Draw(rt, "warm"), Edits: gen.EditOps(4).Draw(rt, "edits")}
		fl, edited := checkHistory(c)
		nt := edited > 0 && l.Count()+r.Count() >= 6
		s.Eval(harness.JSON(c), nt, fmt.Sprintf("effective-edits:%d", edited))
		if nt {
			s.MaybeSample(c)
		}
		if fl != nil && s.Report(c, fl) {
			rt.Fatalf("%s: %s", fl.Sig, fl.Msg)
		}
	})
}

func init() {
	harness.RegisterReplay("equality-after-history", func(raw json.RawMessage) *harness.Failure {
		var c histCase
		if err := json.Unmarshal(raw, &c); err != nil {
			return harness.Failf("bad-replay", "%v", err)
		}
		fl, _ := checkHistory(c)
		return fl
	})
}

func init() {
	harness.Assume("deep copies are made into a fresh document (DeepCopy adds copied individuals/families to the target document by design)",
		"edits are inserted/changed plain nodes with a value that occurs nowhere else, or the removal of any node; 'never deep-equal' then follows from the statement",
		"trees are built top-down through the public API (gen.BuildTree)")
	harness.RegisterReplay("equality-laws", func(raw json.RawMessage) *harness.Failure {
		var c eqCase
		if err := json.Unmarshal(raw, &c); err != nil {
			return harness.Failf("bad-replay", "%v", err)
		}
		return check(c)
	})
}

func TestReplay(t *testing.T) { harness.RunReplay(t) }
