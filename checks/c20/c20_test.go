// C20 - warnings are reported exactly when the recorded facts warrant them (DESIGN.md 6.20).
// The oracle R7 evaluates the documented conditions on the generated facts (day
// numbers), never on parsed output.
package c20

import (
	"bytes"
	"encoding/json"
	"fmt"
	"os"
	"os/exec"
	"path/filepath"
	"sort"
	"strings"
	"sync"
	"testing"

	"github.com/elliotchance/gedcom/v39"
	"pgregory.net/rapid"

	"verif/internal/gen"
	"verif/internal/harness"
	"verif/internal/ref"
)

func TestMain(m *testing.M) { harness.Main(m, "C20") }

// ---- blueprint -------------------------------------------------------------

type person struct {
	ID    string   `json:"id"`
	Sex   []string `json:"sex,omitempty"`
	Birth []int    `json:"birth,omitempty"` // civil day numbers of the DATE lines of the (single) BIRT event
	Bapm  []int    `json:"bapm,omitempty"`
	Bapl  []int    `json:"bapl,omitempty"`
	Death []int    `json:"death,omitempty"`
	Buri  []int    `json:"buri,omitempty"`
	// DeathNoDate: a DEAT event without a DATE
	DeathNoDate bool `json:"death_nodate,omitempty"`
	// BadDates are unparsable DATE values placed in RESI events of the person
	BadDates []string `json:"bad_dates,omitempty"`
	// BadBirth: the (only) BIRT event carries this unparsable DATE; the person then
	// has no usable birth or baptism date at all
	BadBirth string `json:"bad_birth,omitempty"`
}

type family struct {
	ID       string   `json:"id"`
	Husb     string   `json:"husb,omitempty"`
	Wife     string   `json:"wife,omitempty"`
	Children []string `json:"chil,omitempty"`
	Marr     []int    `json:"marr,omitempty"` // one MARR event per entry
	BadDates []string `json:"bad_dates,omitempty"`
}

type doc struct {
	People   []*person `json:"people"`
	Families []*family `json:"families"`
	// RecordOrder / ChildOrder permute records and children in the rendered file.
	RecordPerm []int `json:"record_perm,omitempty"`
	ReverseKid bool  `json:"reverse_children,omitempty"`
	FamFirst   bool  `json:"fam_first,omitempty"`
	// Edits are applied to the decoded document through the public API after its warnings
	// were reported once; the warnings are then asked for again.
	Edits []docEdit `json:"edits,omitempty"`
}

type docEdit struct {
	Kind string `json:"kind"` // delete-person | replace-person | add-child | change-birth | drop-wife-line | drop-husband-line | drop-child-line | reset-family-lines
	A    int    `json:"a"`
	B    int    `json:"b"`
}

// applyEdit changes the live document through the public API; false when not applicable.
func applyEdit(document *gedcom.Document, e docEdit) (ok bool) {
	defer func() {
		if recover() != nil {
			ok = false
		}
	}()
	inds, fams := document.Individuals(), document.Families()
	if len(inds) == 0 {
		return false
	}
	ind := inds[e.A%len(inds)]
	switch e.Kind {
	case "delete-person":
		document.DeleteNode(ind)
		return true
	case "replace-person":
		// another person under the same pointer, born on another day
		ptr := ind.Pointer()
		document.DeleteNode(ind)
		re := document.AddIndividual(ptr)
		re.AddName("Re /Placed/")
		re.AddBirthDate(fmt.Sprintf("%d May %d", 1+e.B%28, 1700+e.B%150))
		return true
	case "add-child":
		if len(fams) == 0 {
			return false
		}
		fams[e.B%len(fams)].AddChild(ind)
		return true
	case "drop-wife-line", "drop-husband-line", "drop-child-line", "reset-family-lines":
		// a HUSB / WIFE / CHIL line removed through the generic node API (not through the setters)
		if len(fams) == 0 {
			return false
		}
		fam := fams[e.B%len(fams)]
		want := map[string]string{"drop-wife-line": "WIFE", "drop-husband-line": "HUSB", "drop-child-line": "CHIL"}[e.Kind]
		if e.Kind == "reset-family-lines" {
			// SetNodes with the lines in reverse order and without the first role line
			var keep gedcom.Nodes
			dropped := false
			for i := len(fam.Nodes()) - 1; i >= 0; i-- {
				n := fam.Nodes()[i]
				switch n.Tag().Tag() {
				case "HUSB", "WIFE", "CHIL":
					if !dropped {
						dropped = true
						continue
					}
				}
				keep = append(keep, n)
			}
			fam.SetNodes(keep)
			return dropped
		}
		for _, n := range fam.Nodes() {
			if n.Tag().Tag() == want {
				fam.DeleteNode(n)
				return true
			}
		}
		return false
	case "change-birth":
		b, _ := ind.Birth()
		if b == nil {
			ind.AddBirthDate(fmt.Sprintf("%d Mar %d", 1+e.B%28, 1700+e.B%150))
			return true
		}
		for _, n := range b.Nodes() {
			if n.Tag().Tag() == "DATE" {
				b.DeleteNode(n)
			}
		}
		b.AddNode(gedcom.NewDateNode(fmt.Sprintf("%d Mar %d", 1+e.B%28, 1700+e.B%150)))
		return true
	}
	return false
}

func sortedStrings(w gedcom.Warnings) []string {
	s := w.Strings()
	sort.Strings(s)
	return s
}

var mon = []string{"", "Jan", "Feb", "Mar", "Apr", "May", "Jun", "Jul", "Aug", "Sep", "Oct", "Nov", "Dec"}

func dateText(n int) string {
	y, m, d := ref.FromCivilDay(n)
	return fmt.Sprintf("%d %s %d", d, mon[m], y)
}

func name(id string) string { return "Nm" + id + " /Sn" + id + "/" }

func (d *doc) person(id string) *person {
	for _, p := range d.People {
		if p.ID == id {
			return p
		}
	}
	return nil
}

func (d *doc) graph() *gen.GraphBP {
	g := &gen.GraphBP{FamiliesFirst: d.FamFirst, Header: true}
	for _, p := range d.People {
		bp := &gen.PersonBP{ID: p.ID, Names: []gen.Str{gen.Str(name(p.ID))}, Sex: p.Sex}
		ev := func(tag string, days []int) {
			if len(days) == 0 {
				return
			}
			e := gen.EventBP{Tag: tag}
			// several DATE lines inside one event
			e.Date = gen.Str(dateText(days[0]))
			for _, x := range days[1:] {
				e.More = append(e.More, &gen.NodeBP{Tag: "DATE", Value: gen.Str(dateText(x))})
			}
			bp.Events = append(bp.Events, e)
		}
		ev("BIRT", p.Birth)
		if p.BadBirth != "" && len(p.Birth) == 0 {
			bp.Events = append(bp.Events, gen.EventBP{Tag: "BIRT", Date: gen.Str(p.BadBirth), HasDate: true})
		}
		ev("BAPM", p.Bapm)
		ev("BAPL", p.Bapl)
		if p.DeathNoDate && len(p.Death) == 0 {
			bp.Events = append(bp.Events, gen.EventBP{Tag: "DEAT", Value: "Y"})
		}
		ev("DEAT", p.Death)
		ev("BURI", p.Buri)
		for _, b := range p.BadDates {
			bp.Events = append(bp.Events, gen.EventBP{Tag: "RESI", Date: gen.Str(b), HasDate: true})
		}
		g.People = append(g.People, bp)
	}
	for _, f := range d.Families {
		fb := &gen.FamilyBP{ID: f.ID, Husb: f.Husb, Wife: f.Wife}
		kids := append([]string(nil), f.Children...)
		if d.ReverseKid {
			for i, j := 0, len(kids)-1; i < j; i, j = i+1, j-1 {
				kids[i], kids[j] = kids[j], kids[i]
			}
		}
		fb.Children = kids
		for _, m := range f.Marr {
			fb.Events = append(fb.Events, gen.EventBP{Tag: "MARR", Date: gen.Str(dateText(m)), HasDate: true})
		}
		for _, b := range f.BadDates {
			fb.Events = append(fb.Events, gen.EventBP{Tag: "ENGA", Date: gen.Str(b), HasDate: true})
		}
		g.Families = append(g.Families, fb)
	}
	if len(d.RecordPerm) == len(g.People) {
		people := make([]*gen.PersonBP, len(g.People))
		for i, j := range d.RecordPerm {
			people[i] = g.People[j]
		}
		g.People = people
		// families in reverse when people are permuted
		for i, j := 0, len(g.Families)-1; i < j; i, j = i+1, j-1 {
			g.Families[i], g.Families[j] = g.Families[j], g.Families[i]
		}
	}
	return g
}

// ---- R7: documented conditions on the facts ---------------------------------

const (
	must     = 1
	optional = 2 // inside the band where the statement itself is approximate
)

type expectation map[string]int // key -> must / optional, with multiplicity in the key

func min(xs []int) (int, bool) {
	if len(xs) == 0 {
		return 0, false
	}
	m := xs[0]
	for _, x := range xs {
		if x < m {
			m = x
		}
	}
	return m, true
}

// estimated birth: earliest birth date, else earliest (LDS) baptism date
func estBirth(p *person) (int, bool) {
	if b, ok := min(p.Birth); ok {
		return b, true
	}
	return min(append(append([]int(nil), p.Bapm...), p.Bapl...))
}

func estDeath(p *person) (int, bool) {
	if b, ok := min(p.Death); ok {
		return b, true
	}
	return min(p.Buri)
}

// firstBirth is "the birth date" used for parent/child and sibling conditions.
func firstBirth(p *person) (int, bool) {
	if len(p.Birth) > 0 {
		return p.Birth[0], true
	}
	return 0, false
}

func band(x, threshold, width float64) bool { return x > threshold-width && x < threshold+width }

func expected(d *doc) (exp map[string]int, opt map[string]int) {
	exp, opt = map[string]int{}, map[string]int{}
	add := func(key string) { exp[key]++ }
	for _, p := range d.People {
		if len(p.Sex) > 1 {
			add("MultipleSexes|" + p.ID)
		}
		for _, b := range p.BadDates {
			add("UnparsableDate|" + p.ID + "|" + b)
		}
		if p.BadBirth != "" && len(p.Birth) == 0 {
			add("UnparsableDate|" + p.ID + "|" + p.BadBirth)
		}
		// individual too old: age at (estimated) death above 100 years
		if db, ok := estDeath(p); ok {
			if bb, ok2 := estBirth(p); ok2 {
				years := float64(db-bb) / 365.25
				key := "IndividualTooOld|" + p.ID
				switch {
				case band(years, 100, 0.02):
					opt[key]++
				case years > 100:
					add(key)
				}
			}
		}
		// event order: birth < baptism < death < burial groups; a later-group date
		// entirely before an earlier-group date
		groups := []struct {
			tag  string
			days []int
		}{{"BIRT", p.Birth}, {"BAPM", p.Bapm}, {"BAPL", p.Bapl}, {"DEAT", p.Death}, {"BURI", p.Buri}}
		rank := map[string]int{"BIRT": 0, "BAPM": 1, "BAPL": 1, "DEAT": 2, "BURI": 3}
		for _, g1 := range groups {
			for _, g2 := range groups {
				if rank[g2.tag] <= rank[g1.tag] {
					continue
				}
				for _, early := range g1.days {
					for _, late := range g2.days {
						if late < early {
							add(fmt.Sprintf("IncorrectEventOrder|%s|%s %d|%s %d", p.ID, g2.tag, late, g1.tag, early))
						}
					}
				}
			}
		}
	}
	for _, f := range d.Families {
		for _, b := range f.BadDates {
			add("UnparsableDate|" + f.ID + "|" + b)
		}
		h, w := d.person(f.Husb), d.person(f.Wife)
		if h != nil && w != nil && len(h.Sex) >= 1 && len(w.Sex) >= 1 && h.Sex[0] == "F" && w.Sex[0] == "M" {
			add("InverseSpouses|" + f.ID)
		}
		for _, c := range f.Children {
			cp := d.person(c)
			cb, ok := firstBirth(cp)
			if !ok {
				continue
			}
			for _, par := range []*person{h, w} {
				if par == nil {
					continue
				}
				if pb, ok := firstBirth(par); ok && cb < pb {
					add("ChildBornBeforeParent|" + f.ID + "|" + par.ID + "|" + c)
				}
			}
		}
		for i, a := range f.Children {
			for _, b := range f.Children[i+1:] {
				ab, ok1 := firstBirth(d.person(a))
				bb, ok2 := firstBirth(d.person(b))
				if !ok1 || !ok2 {
					continue
				}
				gap := ab - bb
				if gap < 0 {
					gap = -gap
				}
				x, y := a, b
				if y < x {
					x, y = y, x
				}
				key := "SiblingsBornTooClose|" + f.ID + "|" + x + "," + y
				switch {
				case gap < 2:
				case gap <= 270:
					add(key)
				case gap < 280:
					opt[key]++
				}
			}
		}
		for _, m := range f.Marr {
			for _, sp := range []*person{h, w} {
				if sp == nil {
					continue
				}
				bb, ok := estBirth(sp)
				if !ok {
					continue
				}
				young := "MarriedOutOfRange|" + f.ID + "|" + sp.ID + "|young"
				old := "MarriedOutOfRange|" + f.ID + "|" + sp.ID + "|old"
				if m < bb {
					// married before being born: the statement does not say
					opt[young]++
					opt[old]++
					continue
				}
				years := float64(m-bb) / 365.25
				switch {
				case band(years, 16, 0.02):
					opt[young]++
				case years < 16:
					add(young)
				}
				switch {
				case band(years, 100, 0.02):
					opt[old]++
				case years > 100:
					add(old)
				}
			}
		}
	}
	return
}

// ---- projection of the real warnings -------------------------------------------

func dayOf(r gedcom.DateRange) int {
	s := r.StartDate()
	return ref.CivilDay(s.Year, int(s.Month), s.Day)
}

func project(ws gedcom.Warnings) (map[string]int, []string, *harness.Failure) {
	got := map[string]int{}
	var texts []string
	for _, w := range ws {
		texts = append(texts, w.Name()+": "+w.String())
		ctxI, ctxF := "", ""
		if c := w.Context(); c.Individual != nil {
			ctxI = c.Individual.Pointer()
		} else if c.Family != nil {
			ctxF = c.Family.Pointer()
		}
		var key string
		var people []string
		wantCtx := ""
		switch x := w.(type) {
		case *gedcom.ChildBornBeforeParentWarning:
			fam := x.Child.Family().Pointer()
			key = "ChildBornBeforeParent|" + fam + "|" + x.Parent.Pointer() + "|" + x.Child.Individual().Pointer()
			people = []string{x.Parent.Pointer(), x.Child.Individual().Pointer()}
			wantCtx = "F:" + fam
		case *gedcom.SiblingsBornTooCloseWarning:
			a, b := x.Sibling1.Individual().Pointer(), x.Sibling2.Individual().Pointer()
			if b < a {
				a, b = b, a
			}
			fam := x.Sibling1.Family().Pointer()
			key = "SiblingsBornTooClose|" + fam + "|" + a + "," + b
			people = []string{a, b}
			wantCtx = "F:" + fam
		case *gedcom.MarriedOutOfRangeWarning:
			key = "MarriedOutOfRange|" + x.Family.Pointer() + "|" + x.Spouse.Pointer() + "|" + x.Boundary
			people = []string{x.Spouse.Pointer()}
			wantCtx = "F:" + x.Family.Pointer()
		case *gedcom.IndividualTooOldWarning:
			key = "IndividualTooOld|" + x.Individual.Pointer()
			people = []string{x.Individual.Pointer()}
			wantCtx = "I:" + x.Individual.Pointer()
		case *gedcom.IncorrectEventOrderWarning:
			key = fmt.Sprintf("IncorrectEventOrder|%s|%s %d|%s %d", ctxI, x.FirstEvent.Tag().Tag(), dayOf(x.FirstDateRange), x.SecondEvent.Tag().Tag(), dayOf(x.SecondDateRange))
			people = []string{ctxI}
			wantCtx = "I:" + ctxI
		case *gedcom.UnparsableDateWarning:
			key = "UnparsableDate|" + ctxI + ctxF + "|" + x.Date.Value()
		case *gedcom.MultipleSexesWarning:
			key = "MultipleSexes|" + x.Individual.Pointer()
			people = []string{x.Individual.Pointer()}
			wantCtx = "I:" + x.Individual.Pointer()
		case *gedcom.InverseSpousesWarning:
			key = "InverseSpouses|" + x.Family.Pointer()
			people = []string{x.Husband.Pointer(), x.Wife.Pointer()}
			wantCtx = "F:" + x.Family.Pointer()
		default:
			return nil, texts, harness.Failf("unknown-warning-kind", "warning of unknown kind %T: %s", w, w.String())
		}
		if w.Name() != strings.SplitN(key, "|", 2)[0] {
			return nil, texts, harness.Failf("warning-name", "warning %T has Name() %q", w, w.Name())
		}
		if wantCtx != "" && wantCtx != "I:"+ctxI && wantCtx != "F:"+ctxF {
			return nil, texts, harness.Failf("warning-context", "%s: context is individual %q / family %q, expected %s", key, ctxI, ctxF, wantCtx)
		}
		// the message names the right people
		for _, p := range people {
			if p != "" && !strings.Contains(w.String(), "Nm"+p+" Sn"+p) {
				return nil, texts, harness.Failf("warning-does-not-name-person", "%s: message %q does not name %s", key, w.String(), name(p))
			}
		}
		got[key]++
	}
	return got, texts, nil
}

func diffKeys(exp map[string]int, opt map[string]int, got map[string]int) (missing, extra []string) {
	for k, n := range exp {
		if got[k] < n {
			missing = append(missing, fmt.Sprintf("%s (x%d, reported x%d)", k, n, got[k]))
		}
	}
	for k, n := range got {
		allowed := exp[k] + opt[k]
		if n > allowed {
			extra = append(extra, fmt.Sprintf("%s (reported x%d, warranted x%d)", k, n, allowed))
		}
	}
	sort.Strings(missing)
	sort.Strings(extra)
	return
}

func kindOf(key string) string { return strings.SplitN(key, "|", 2)[0] }

func check(d *doc) (fl *harness.Failure, nexp int, kinds []string) {
	defer func() {
		if p := recover(); p != nil {
			fl = harness.Failf("panic", "panic: %v", p)
		}
	}()
	exp, opt := expected(d)
	for k, n := range exp {
		nexp += n
		kinds = append(kinds, "met:"+kindOf(k))
	}
	text := d.graph().Text()
	document, err := gedcom.NewDocumentFromString(text)
	if err != nil {
		return harness.Failf("generator-text-rejected", "%v", err), nexp, kinds
	}
	got, texts, f := project(document.Warnings())
	if f != nil {
		return f, nexp, kinds
	}
	missing, extra := diffKeys(exp, opt, got)
	if len(missing) > 0 {
		return harness.Failf("warning-missing:"+kindOf(missing[0]), "warranted but not reported: %v\nreported: %v\nfile:\n%s", missing, texts, text), nexp, kinds
	}
	if len(extra) > 0 {
		return harness.Failf("warning-unwarranted:"+kindOf(extra[0]), "reported but not warranted: %v\nreported: %v\nfile:\n%s", extra, texts, text), nexp, kinds
	}
	// the table that the library renders from a report (Warnings.WriteHTMLTo, which is what
	// 'gedcom query -format html .Warnings' prints) is the same report: one row per warning
	{
		ws := document.Warnings()
		var buf bytes.Buffer
		if _, err := ws.WriteHTMLTo(&buf); err != nil {
			return harness.Failf("html-report-fails", "Warnings.WriteHTMLTo: %v", err), nexp, kinds
		}
		if rows := strings.Count(buf.String(), "<tr") - strings.Count(buf.String(), "<thead"); rows != len(ws) {
			return harness.Failf("html-report-rows", "the report has %d warnings, its HTML table has %d rows\nreported: %v\nfile:\n%s", len(ws), rows, texts, text), nexp, kinds
		}
	}
	// asking again gives the same report (whatever was read or cached by the first call,
	// by the views of the people and families, or by a similarity calculation in between)
	for _, ind := range document.Individuals() {
		_, _, _ = ind.Families(), ind.Spouses(), ind.Parents()
		_, _ = ind.EstimatedBirthDate()
		_, _ = ind.EstimatedDeathDate()
		for _, other := range document.Individuals() {
			_ = ind.SurroundingSimilarity(other, gedcom.NewSimilarityOptions(), false)
		}
	}
	again, textsAgain, f := project(document.Warnings())
	if f != nil {
		return f, nexp, kinds
	}
	for k := range mergeKeys(got, again) {
		if got[k] != again[k] {
			return harness.Failf("second-report-differs:"+kindOf(k), "warning %s reported x%d by the first call of Warnings() and x%d by the second call on the same document\nfirst: %v\nsecond: %v\nfile:\n%s", k, got[k], again[k], texts, textsAgain, text), nexp, kinds
		}
	}
	// several callers at once, on a document whose caches are cold: each gets the same report
	if len(text)%8 == 5 {
		cold, cerr := gedcom.NewDocumentFromString(text)
		if cerr == nil {
			const callers = 8
			reports := make([]gedcom.Warnings, callers)
			start := make(chan struct{})
			var wg sync.WaitGroup
			for k := 0; k < callers; k++ {
				wg.Add(1)
				go func(k int) {
					defer wg.Done()
					defer func() { _ = recover() }()
					<-start
					reports[k] = cold.Warnings()
				}(k)
			}
			close(start)
			wg.Wait()
			for k := 0; k < callers; k++ {
				par, _, f := project(reports[k])
				if f != nil {
					return f, nexp, kinds
				}
				for key := range mergeKeys(got, par) {
					if got[key] != par[key] {
						return harness.Failf("parallel-report-differs:"+kindOf(key), "warning %s reported x%d by a single caller and x%d to one of %d callers that asked a freshly decoded document at the same time\nfile:\n%s", key, got[key], par[key], callers, text), nexp, kinds
					}
				}
			}
			kinds = append(kinds, "parallel-callers")
		}
	}
	// a document that was changed through the public API after its warnings were reported is a
	// document like any other: its report is the report of the same text decoded from nothing
	// (which the clauses above judge on other cases)
	applied := 0
	for _, e := range d.Edits {
		if applyEdit(document, e) {
			applied++
		}
	}
	if applied > 0 {
		kinds = append(kinds, "edited-through-the-api")
		live := sortedStrings(document.Warnings())
		fresh, err := gedcom.NewDocumentFromString(document.String())
		if err == nil {
			if want := sortedStrings(fresh.Warnings()); strings.Join(live, "\n") != strings.Join(want, "\n") {
				return harness.Failf("edited-document-report-differs", "after %v through the public API the document reports\n%s\nand the same text decoded from nothing reports\n%s\ntext now:\n%s", d.Edits, strings.Join(live, "\n"), strings.Join(want, "\n"), document.String()), nexp, kinds
			}
		}
	}
	// reordering records and children does not change the set of warnings
	d2 := *d
	d2.Edits = nil
	d2.ReverseKid = !d.ReverseKid
	d2.FamFirst = !d.FamFirst
	perm := make([]int, len(d.People))
	for i := range perm {
		perm[i] = len(perm) - 1 - i
	}
	d2.RecordPerm = perm
	doc2, err := gedcom.NewDocumentFromString(d2.graph().Text())
	if err != nil {
		return harness.Failf("generator-text-rejected", "%v", err), nexp, kinds
	}
	got2, texts2, f := project(doc2.Warnings())
	if f != nil {
		return f, nexp, kinds
	}
	for k, n := range got {
		if got2[k] != n {
			return harness.Failf("order-dependent:"+kindOf(k), "warning %s reported x%d, after reordering records and children x%d\nbefore: %v\nafter: %v", k, n, got2[k], texts, texts2), nexp, kinds
		}
	}
	for k, n := range got2 {
		if got[k] != n {
			return harness.Failf("order-dependent:"+kindOf(k), "warning %s reported x%d only after reordering (before x%d)", k, n, got[k]), nexp, kinds
		}
	}
	return nil, nexp, kinds
}

func mergeKeys(a, b map[string]int) map[string]bool {
	out := map[string]bool{}
	for k := range a {
		out[k] = true
	}
	for k := range b {
		out[k] = true
	}
	return out
}

// ---- generator ---------------------------------------------------------------

func years(y float64) int { return int(y * 365.25) }

func genDoc(t *rapid.T) *doc {
	d := &doc{}
	// (any century of the past: a fifth of the documents are set where years have one to three digits)
	anchorYear := rapid.IntRange(1650, 1800).Draw(t, "anchor")
	if rapid.IntRange(0, 4).Draw(t, "early") == 0 {
		anchorYear = rapid.SampledFrom([]int{75, 95, 110, 180, 420, 990, 1010}).Draw(t, "earlyAnchor")
	}
	anchor := ref.CivilDay(anchorYear, 6, 15)
	n := rapid.IntRange(1, 7).Draw(t, "people")
	// (one document in 25 has a big family: 13..22 children in the first family)
	bigFamily := rapid.IntRange(0, 24).Draw(t, "bigFamily") == 12
	if bigFamily {
		n = rapid.IntRange(16, 26).Draw(t, "bigPeople")
	}
	for i := 0; i < n; i++ {
		d.People = append(d.People, &person{ID: fmt.Sprintf("I%d", i+1)})
	}
	// families: distinct roles inside a family; a sibling pair shares one family only
	nf := rapid.IntRange(0, 3).Draw(t, "families")
	if bigFamily && nf == 0 {
		nf = 1
	}
	pairUsed := map[[2]int]bool{}
	for f := 0; f < nf; f++ {
		fam := &family{ID: fmt.Sprintf("F%d", f+1)}
		order := rapid.Permutation(seq(n)).Draw(t, "roles")
		k := 0
		take := func(prob int, label string) string {
			if k >= len(order) || rapid.IntRange(0, 9).Draw(t, label) >= prob {
				return ""
			}
			k++
			return d.People[order[k-1]].ID
		}
		fam.Husb = take(8, "hasHusb")
		fam.Wife = take(8, "hasWife")
		nc := rapid.IntRange(0, 4).Draw(t, "nchildren")
		if bigFamily && f == 0 {
			nc = rapid.IntRange(13, n-3).Draw(t, "bigChildren")
		}
		var kids []int
		for c := 0; c < nc && k < len(order); c++ {
			cand := order[k]
			k++
			ok := true
			for _, o := range kids {
				a, b := o, cand
				if b < a {
					a, b = b, a
				}
				if pairUsed[[2]int{a, b}] {
					ok = false
				}
			}
			if ok {
				kids = append(kids, cand)
			}
		}
		for i, a := range kids {
			for _, b := range kids[i+1:] {
				x, y := a, b
				if y < x {
					x, y = y, x
				}
				pairUsed[[2]int{x, y}] = true
			}
			fam.Children = append(fam.Children, d.People[a].ID)
		}
		d.Families = append(d.Families, fam)
	}
	// births: parents first (anchor +- 40 years), then children relative to a parent / sibling
	birth := map[string]int{}
	for _, p := range d.People {
		if rapid.IntRange(0, 9).Draw(t, "hasBirth"+p.ID) < 9 {
			birth[p.ID] = anchor + rapid.IntRange(-years(40), years(40)).Draw(t, "birth"+p.ID)
		}
	}
	for _, f := range d.Families {
		prev := -1
		for _, c := range f.Children {
			if _, has := birth[c]; !has {
				continue
			}
			mode := rapid.IntRange(0, 9).Draw(t, "childBirthMode"+c)
			switch {
			case mode <= 2 && prev >= 0:
				// sibling gap around the thresholds
				gap := rapid.SampledFrom([]int{0, 1, 2, 3, 30, 200, 269, 270, 280, 281, 400, 1000}).Draw(t, "gap"+c)
				if rapid.Bool().Draw(t, "gapsign"+c) {
					gap = -gap
				}
				birth[c] = prev + gap
			case mode <= 6:
				// relative to a parent: before / same day / day after / ordinary
				par := f.Wife
				if par == "" || rapid.Bool().Draw(t, "whichParent"+c) {
					par = f.Husb
				}
				if pb, ok := birth[par]; ok {
					off := rapid.SampledFrom([]int{-400, -1, 0, 1, years(15), years(25), years(35)}).Draw(t, "parentOffset"+c)
					birth[c] = pb + off
				}
			}
			prev = birth[c]
		}
	}
	for _, p := range d.People {
		if b, ok := birth[p.ID]; ok {
			p.Birth = []int{b}
		}
		// an unparsable birth date instead of a usable one (the person keeps the place
		// in the family, e.g. as the first of three siblings)
		if rapid.IntRange(0, 5).Draw(t, "badBirth"+p.ID) == 0 {
			p.Birth = nil
			p.BadBirth = rapid.SampledFrom([]string{"foo bar", "31 Feb 1800", "sometime in spring"}).Draw(t, "badBirthValue"+p.ID)
		}
	}
	// remaining facts per person
	for _, p := range d.People {
		switch rapid.IntRange(0, 7).Draw(t, "sexes"+p.ID) {
		case 0:
		case 1:
			p.Sex = []string{"M", "F"}
		case 2:
			p.Sex = []string{"F", "F", "M"}
		default:
			p.Sex = []string{rapid.SampledFrom([]string{"M", "F", "U"}).Draw(t, "sex"+p.ID)}
		}
		base, hasBase := estBirth(p)
		if !hasBase {
			base = anchor
		}
		if rapid.IntRange(0, 3).Draw(t, "hasBapm"+p.ID) == 0 && p.BadBirth == "" {
			p.Bapm = []int{base + rapid.SampledFrom([]int{-30, -1, 0, 1, 30, 400}).Draw(t, "bapm"+p.ID)}
			if rapid.IntRange(0, 4).Draw(t, "twoBapm"+p.ID) == 0 {
				p.Bapm = append(p.Bapm, base+rapid.SampledFrom([]int{-2, 0, 20}).Draw(t, "bapm2"+p.ID))
			}
		}
		if rapid.IntRange(0, 9).Draw(t, "hasBapl"+p.ID) == 0 && p.BadBirth == "" {
			p.Bapl = []int{base + rapid.SampledFrom([]int{-1, 0, 3000}).Draw(t, "bapl"+p.ID)}
		}
		switch rapid.IntRange(0, 5).Draw(t, "deathKind"+p.ID) {
		case 0:
		case 1:
			p.DeathNoDate = true
		default:
			age := rapid.SampledFrom([]int{-10, -1, 0, 1, years(1), years(40), years(80), years(99.9), years(100.1), years(110), years(130)}).Draw(t, "ageAtDeath"+p.ID)
			p.Death = []int{base + age}
		}
		if rapid.IntRange(0, 2).Draw(t, "hasBuri"+p.ID) == 0 {
			db, ok := estDeath(p)
			if !ok {
				db = base + rapid.SampledFrom([]int{years(50), years(99.9), years(100.1), -5}).Draw(t, "buriBase"+p.ID)
			}
			p.Buri = []int{db + rapid.SampledFrom([]int{-1, 0, 1, 5}).Draw(t, "buri"+p.ID)}
			if rapid.IntRange(0, 4).Draw(t, "twoBuri"+p.ID) == 0 {
				p.Buri = append(p.Buri, db+rapid.SampledFrom([]int{-3, 2}).Draw(t, "buri2"+p.ID))
			}
		}
		if rapid.IntRange(0, 5).Draw(t, "badDate"+p.ID) == 0 {
			p.BadDates = []string{rapid.SampledFrom([]string{"sometime", "32 Jan 1900", "Foo 1900", "1900-01-01", "3 Sept 1900x"}).Draw(t, "badv"+p.ID)}
			// (the same unparsable text a second time: two warnings that read exactly the same)
			if rapid.IntRange(0, 2).Draw(t, "badTwice"+p.ID) == 1 {
				p.BadDates = append(p.BadDates, p.BadDates[0])
			}
		}
	}
	for _, f := range d.Families {
		if rapid.IntRange(0, 2).Draw(t, "hasMarr"+f.ID) > 0 {
			sp := d.person(f.Husb)
			if sp == nil || rapid.Bool().Draw(t, "marrOnWife"+f.ID) {
				if w := d.person(f.Wife); w != nil {
					sp = w
				}
			}
			base := anchor
			if sp != nil {
				if b, ok := estBirth(sp); ok {
					base = b
				}
			}
			age := rapid.SampledFrom([]int{years(10), years(15.9), years(16.1), years(25), years(60), years(99.9), years(100.1), years(104)}).Draw(t, "marrAge"+f.ID)
			f.Marr = []int{base + age}
			if rapid.IntRange(0, 5).Draw(t, "twoMarr"+f.ID) == 0 {
				f.Marr = append(f.Marr, base+years(30))
			}
		}
		if rapid.IntRange(0, 6).Draw(t, "famBad"+f.ID) == 0 {
			f.BadDates = []string{rapid.SampledFrom([]string{"sometime", "31 Nov 1850"}).Draw(t, "fambadv"+f.ID)}
		}
	}
	d.FamFirst = rapid.Bool().Draw(t, "famFirst")
	d.ReverseKid = rapid.Bool().Draw(t, "reverseKids")
	if rapid.IntRange(0, 3).Draw(t, "edited") == 0 {
		for k := rapid.IntRange(1, 2).Draw(t, "nedits"); k > 0; k-- {
			d.Edits = append(d.Edits, docEdit{Kind: rapid.SampledFrom([]string{"delete-person", "replace-person", "add-child", "change-birth", "drop-wife-line", "drop-husband-line", "drop-child-line", "reset-family-lines"}).Draw(t, "editKind"),
				A: rapid.IntRange(0, 6).Draw(t, "editA"), B: rapid.IntRange(0, 200).Draw(t, "editB")})
		}
	}
	return d
}

func seq(n int) []int {
	s := make([]int, n)
	for i := range s {
		s[i] = i
	}
	return s
}

func TestCheckWarnings(t *testing.T) {
	s := harness.NewSub("warnings-sound-and-complete",
		"random family graphs (1..7 people, 0..3 families, distinct roles inside a family, a sibling pair shares at most one family) with exact D Mon Y dates between about 1600 and 1975 (a fifth of the documents in an early century, years with one to four digits): sibling gaps from {0,1,2,3,30,200,269,270,280,281,400,1000} days, children born -400/-1/0/+1 days or 15-35 years relative to a parent, deaths at -10 days .. 130 years incl. 99.9/100.1, marriages at 10/15.9/16.1/25/60/99.9/100.1/104 years, baptisms/burials around birth/death, 0-3 SEX lines, unparsable dates in RESI/ENGA events; the multiset of (warning kind, people, dates) computed from the facts must equal the projection of Document.Warnings(), again on a second call after the views and similarities of the document were read, to each of 8 callers that ask a freshly decoded copy at the same time (an eighth of the documents), and before and after reordering records and children; for a quarter of the documents 1..2 edits through the public API follow (a person deleted, replaced by another under the same pointer, added as a child, a birth date changed, a HUSB/WIFE/CHIL line removed through DeleteNode or SetNodes) and the report must then be that of the same text decoded from nothing; non-trivial = at least one warranted warning and at least one candidate of another kind that is not warranted")
	s.Rapid(t, harness.Share(harness.Pick(80000, 2000000)), 200, func(rt *rapid.T) {
		d := genDoc(rt)
		fl, nexp, kinds := check(d)
		nt := nexp >= 1 && len(d.People) >= 2
		cls := dedupe(kinds)
		if nexp == 0 {
			cls = append(cls, "no-warning-warranted")
		}
		if nexp >= 3 {
			cls = append(cls, "multi-fault")
		}
		for _, f := range d.Families {
			if len(f.Children) >= 13 {
				cls = append(cls, "big-family:>=13-children")
				break
			}
		}
		s.Eval(harness.JSON(d), nt, cls...)
		if nt {
			s.MaybeSample(d)
		}
		if fl != nil && s.Report(d, fl) {
			rt.Fatalf("%s: %s", fl.Sig, fl.Msg)
		}
	})
}

func dedupe(xs []string) []string {
	seen := map[string]bool{}
	var out []string
	for _, x := range xs {
		if !seen[x] {
			seen[x] = true
			out = append(out, x)
		}
	}
	sort.Strings(out)
	return out
}

// the command line prints one line per warning
func TestCheckCLI(t *testing.T) {
	cli := os.Getenv("VERIF_CLI")
	if cli == "" {
		t.Skip("no CLI binary")
	}
	s := harness.NewSub("cli-warnings-lines", "the built 'gedcom warnings' binary on generated files: exit status 0 and exactly one output line per warning of Document.Warnings() with the same text; non-trivial = at least one warning")
	dir, err := os.MkdirTemp(os.Getenv("VERIF_SCRATCH"), "c20cli")
	if err != nil {
		t.Fatal(err)
	}
	defer os.RemoveAll(dir)
	s.Rapid(t, harness.Share(harness.Pick(160, 4000)), 201, func(rt *rapid.T) {
		d := genDoc(rt)
		text := d.graph().Text()
		document, err := gedcom.NewDocumentFromString(text)
		if err != nil {
			rt.Fatalf("%v", err)
		}
		want := document.Warnings().Strings()
		path := filepath.Join(dir, "in.ged")
		if err := os.WriteFile(path, []byte(text), 0o644); err != nil {
			rt.Fatalf("%v", err)
		}
		out, err := exec.Command(cli, "warnings", path).CombinedOutput()
		s.Eval(harness.JSON(d), len(want) > 0)
		if len(want) > 0 {
			s.MaybeSample(map[string]interface{}{"file": text, "stdout": string(out)})
		}
		var fl *harness.Failure
		lines := strings.Split(strings.TrimRight(string(out), "\n"), "\n")
		if string(out) == "" {
			lines = nil
		}
		switch {
		case err != nil:
			fl = harness.Failf("cli-exit", "gedcom warnings failed: %v\n%s", err, out)
		case len(lines) != len(want):
			fl = harness.Failf("cli-line-count", "gedcom warnings printed %d lines for %d warnings:\n%s", len(lines), len(want), out)
		default:
			a, b := append([]string(nil), lines...), append([]string(nil), want...)
			sort.Strings(a)
			sort.Strings(b)
			for i := range a {
				if a[i] != b[i] {
					fl = harness.Failf("cli-line-text", "line %q is not a warning of the library (%q)", a[i], b[i])
					break
				}
			}
		}
		if fl != nil && s.Report(d, fl) {
			rt.Fatalf("%s: %s", fl.Sig, fl.Msg)
		}
	})
}

func init() {
	harness.Assume("margins only where the statement itself is approximate: ages within +-0.02 years (about a week) of 16 and 100 and sibling gaps of 271..279 days may or may not warn; everything else is decided on whole days",
		"a marriage dated before the spouse's birth may or may not produce a married-out-of-range warning (the statement does not say)",
		"birth for age conditions = earliest BIRT date, else earliest baptism (documented on EstimatedBirthDate); death = earliest DEAT date, else earliest burial",
		"unparsable dates are placed in RESI / ENGA events and, for about one person in six, as the only BIRT date (that person then has no baptism either, so no age is known for them); no phrases or empty DATE values",
		"all dates lie before 1975, so nothing depends on today's date")
	harness.RegisterReplay("warnings-sound-and-complete", func(raw json.RawMessage) *harness.Failure {
		var d doc
		if err := json.Unmarshal(raw, &d); err != nil {
			return harness.Failf("bad-replay", "%v", err)
		}
		fl, _, _ := check(&d)
		return fl
	})
}

func TestReplay(t *testing.T) { harness.RunReplay(t) }
