// C06 - date-range comparison returns the documented interval relation (DESIGN.md 6.6).
package c06

import (
	"encoding/json"
	"fmt"
	"testing"
	"time"

	"github.com/elliotchance/gedcom/v39"
	"pgregory.net/rapid"

	"verif/internal/harness"
	"verif/internal/ref"
)

func TestMain(m *testing.M) { harness.Main(m, "C06") }

// endpoint: a date of day (G=0), month (G=1) or year (G=2) granularity
type endpoint struct {
	Y int `json:"y"`
	M int `json:"m,omitempty"`
	D int `json:"d,omitempty"`
}

func (e endpoint) date() gedcom.Date {
	return gedcom.Date{Day: e.D, Month: time.Month(e.M), Year: e.Y}
}

// first / last civil day of the period the endpoint names
func (e endpoint) first() int {
	m, d := e.M, e.D
	if m == 0 {
		m = 1
	}
	if d == 0 {
		d = 1
	}
	return ref.CivilDay(e.Y, m, d)
}

func (e endpoint) last() int {
	m, d := e.M, e.D
	if m == 0 {
		m = 12
	}
	if d == 0 {
		d = ref.DaysIn(e.Y, m)
	}
	return ref.CivilDay(e.Y, m, d)
}

type cmpCase struct {
	// X = [A, B] is the receiver (the moving "Right" row of the documentation
	// diagram), Y = [C, D] the argument (the fixed "Left" range), as in
	// TestDateRange_Compare.
	A, B, C, D endpoint
}

type rel = gedcom.DateRangeComparison

const (
	Invalid         = gedcom.DateRangeComparisonInvalid
	Equal           = gedcom.DateRangeComparisonEqual
	Inside          = gedcom.DateRangeComparisonInside
	InsideStart     = gedcom.DateRangeComparisonInsideStart
	InsideEnd       = gedcom.DateRangeComparisonInsideEnd
	Outside         = gedcom.DateRangeComparisonOutside
	OutsideStart    = gedcom.DateRangeComparisonOutsideStart
	OutsideEnd      = gedcom.DateRangeComparisonOutsideEnd
	PartiallyBefore = gedcom.DateRangeComparisonPartiallyBefore
	PartiallyAfter  = gedcom.DateRangeComparisonPartiallyAfter
	Before          = gedcom.DateRangeComparisonBefore
	After           = gedcom.DateRangeComparisonAfter
	EntirelyBefore  = gedcom.DateRangeComparisonEntirelyBefore
	EntirelyAfter   = gedcom.DateRangeComparisonEntirelyAfter
)

var allRels = []rel{Equal, Inside, InsideStart, InsideEnd, Outside, OutsideStart, OutsideEnd, PartiallyBefore, PartiallyAfter, Before, After, EntirelyBefore, EntirelyAfter}

// R4: the 13 relations of the documentation diagram as predicates over day
// numbers; moving range [a,b], fixed range [c,d].
func holds(r rel, a, b, c, d int) bool {
	switch r {
	case Equal:
		return a == c && b == d
	case Inside:
		return c < a && b < d
	case InsideStart:
		return a == c && b < d
	case InsideEnd:
		return c < a && b == d
	case Outside:
		return a < c && d < b
	case OutsideStart:
		return a == c && d < b
	case OutsideEnd:
		return a < c && b == d
	case PartiallyBefore:
		return a < c && c < b && b < d
	case PartiallyAfter:
		return c < a && a < d && d < b
	case Before:
		return a < c && b == c
	case After:
		return a == d && d < b
	case EntirelyBefore:
		return b < c
	case EntirelyAfter:
		return d < a
	}
	return false
}

var converse = map[rel]rel{Equal: Equal, Inside: Outside, Outside: Inside, InsideStart: OutsideStart, OutsideStart: InsideStart,
	InsideEnd: OutsideEnd, OutsideEnd: InsideEnd, PartiallyBefore: PartiallyAfter, PartiallyAfter: PartiallyBefore,
	Before: After, After: Before, EntirelyBefore: EntirelyAfter, EntirelyAfter: EntirelyBefore}

func (c cmpCase) String() string {
	f := func(e endpoint) string { return fmt.Sprintf("%d-%d-%d", e.Y, e.M, e.D) }
	return fmt.Sprintf("[%s .. %s] vs [%s .. %s]", f(c.A), f(c.B), f(c.C), f(c.D))
}

func check(cs cmpCase) (*harness.Failure, rel) {
	a, b, c, d := cs.A.first(), cs.B.last(), cs.C.first(), cs.D.last()
	x := gedcom.NewDateRange(cs.A.date(), cs.B.date())
	y := gedcom.NewDateRange(cs.C.date(), cs.D.date())
	got := x.Compare(y)
	degenerate := "non-degenerate"
	if a == b || c == d {
		degenerate = "single-day-operand"
	}
	if got == Invalid {
		return harness.Failf("invalid:"+degenerate, "%v: Compare returns Invalid for two forward ranges", cs), got
	}
	var adm []rel
	for _, r := range allRels {
		if holds(r, a, b, c, d) {
			adm = append(adm, r)
		}
	}
	ok := false
	for _, r := range adm {
		if r == got {
			ok = true
		}
	}
	if !ok {
		return harness.Failf("inadmissible:"+degenerate, "%v (days [%d,%d] vs [%d,%d]): Compare returns %v, the documented relation is %v", cs, a, b, c, d, got, adm), got
	}
	back := y.Compare(x)
	if back != converse[got] {
		return harness.Failf("not-converse:"+degenerate, "%v: X.Compare(Y) = %v but Y.Compare(X) = %v (converse would be %v)", cs, got, back, converse[got]), got
	}
	if a == c && b == d && got != Equal {
		return harness.Failf("self-not-equal:"+degenerate, "%v: identical intervals compare as %v", cs, got), got
	}
	n := 0
	for _, v := range []bool{got.IsEqual(), got.IsPartiallyEqual(), got.IsNotEqual()} {
		if v {
			n++
		}
	}
	if n != 1 {
		return harness.Failf("simplified-verdicts", "%v: %v has IsEqual=%v IsPartiallyEqual=%v IsNotEqual=%v", cs, got, got.IsEqual(), got.IsPartiallyEqual(), got.IsNotEqual()), got
	}
	// the simplified verdict agrees with intersection of the day intervals
	intersect := a <= d && c <= b
	if got.IsNotEqual() == intersect && !(intersect && (b == c || a == d)) {
		return harness.Failf("simplified-vs-intersection", "%v: %v, IsNotEqual=%v but the day intervals intersect=%v", cs, got, got.IsNotEqual(), intersect), got
	}
	return nil, got
}

func dayEP(n int) endpoint {
	y, m, d := ref.FromCivilDay(n)
	return endpoint{Y: y, M: m, D: d}
}

func TestCheckWindows(t *testing.T) {
	s := harness.NewSub("day-windows-exhaustive",
		"every ordered pair of day ranges [a,b] x [c,d], a<=b, c<=d, inside seven 14-day windows (23 Feb-7 Mar 2024 across the leap day, 25 Dec 1999-7 Jan 2000 across a year end, 25 Dec 2000-7 Jan 2001 across the end of a leap year, 23 Feb-8 Mar 1900 in a century year that is not a leap year, 26 Oct-8 Nov 2023 across a month end from a 2-digit to a 1-digit day, 1-14 Jan 0001 and the last 14 days of 9999 at the limits; thorough: 28-day windows); all distinct by construction; non-trivial = an endpoint coincidence or a single-day operand")
	s.SetExhaustive(true)
	w := harness.Pick(14, 28)
	starts := []int{ref.CivilDay(2024, 2, 23), ref.CivilDay(1999, 12, 25), ref.CivilDay(1, 1, 1), ref.CivilDay(9999, 12, 31) - w + 1,
		ref.CivilDay(2000, 12, 25), ref.CivilDay(1900, 2, 23), ref.CivilDay(2023, 10, 26)}
	shard, ns := harness.Shard(), harness.NShards()
	idx := 0
	for _, s0 := range starts {
		for a := 0; a < w; a++ {
			for b := a; b < w; b++ {
				idx++
				if idx%ns != shard {
					continue
				}
				var n, nt int64
				hist := map[string]int64{}
				for c := 0; c < w; c++ {
					for d := c; d < w; d++ {
						cs := cmpCase{dayEP(s0 + a), dayEP(s0 + b), dayEP(s0 + c), dayEP(s0 + d)}
						fl, got := check(cs)
						n++
						if a == c || a == d || b == c || b == d || a == b || c == d {
							nt++
						}
						deg := ""
						if a == b || c == d {
							deg = "/single-day"
						}
						hist[got.String()[19:]+deg]++
						if fl != nil {
							s.Report(cs, fl)
						}
						if (a*7+b*3+c*5+d)%997 == 1 {
							s.Sample(map[string]interface{}{"case": cs, "result": got.String()})
						}
					}
				}
				s.EvalN(n, nt)
				for k, v := range hist {
					s.Class(k, v)
				}
			}
		}
	}
}

func genEndpoint(t *rapid.T, label string, lo int, isEnd bool) endpoint {
	// pick a period that does not start before civil day lo
	g := rapid.IntRange(0, 2).Draw(t, label+"g")
	n := rapid.IntRange(lo, min(lo+rapid.SampledFrom([]int{0, 1, 3, 40, 400, 40000, 110000, 150000, 1000000, 3652058}).Draw(t, label+"span"), ref.LastCivilDay)).Draw(t, label+"n")
	y, m, d := ref.FromCivilDay(n)
	e := endpoint{Y: y, M: m, D: d}
	switch g {
	case 1:
		e.D = 0
	case 2:
		e.D, e.M = 0, 0
	}
	// a coarser period must still begin at or after lo
	for e.first() < lo {
		if e.M == 0 {
			if e.Y >= 9999 {
				return endpoint{Y: y, M: m, D: d}
			}
			e.Y++
		} else {
			e.M++
			if e.M > 12 {
				e.M = 1
				e.Y++
				if e.Y > 9999 {
					return endpoint{Y: y, M: m, D: d}
				}
			}
		}
	}
	return e
}

func TestCheckRandom(t *testing.T) {
	s := harness.NewSub("random-mixed-granularity",
		"random pairs of forward ranges over years 1..9999 whose four endpoints are day, month or year dates (compared through the true first/last day of the period), lengths from one day to the whole calendar (a fifth of the ranges longer than the 292 years that a time.Duration holds), the second range biased to start near an endpoint of the first; non-trivial = endpoint coincidence or single-day operand; distinct by the four endpoints")
	s.Rapid(t, harness.Share(harness.Pick(200000, 60000000)), 60, func(rt *rapid.T) {
		base := rapid.OneOf(rapid.IntRange(0, ref.LastCivilDay-50000), rapid.SampledFrom([]int{0, ref.CivilDay(1900, 2, 25), ref.CivilDay(2000, 2, 25), ref.CivilDay(1999, 12, 20)})).Draw(rt, "base")
		var cs cmpCase
		cs.A = genEndpoint(rt, "a", base, false)
		cs.B = genEndpoint(rt, "b", cs.A.first(), true)
		// anchor the second range near the first
		anchor := rapid.SampledFrom([]int{base, cs.A.first(), cs.B.last(), max(cs.A.first()-2, 0), max(cs.B.last()-1, 0)}).Draw(rt, "anchor")
		cs.C = genEndpoint(rt, "c", anchor, false)
		cs.D = genEndpoint(rt, "d", cs.C.first(), true)
		if rapid.Bool().Draw(rt, "swap") {
			cs.A, cs.B, cs.C, cs.D = cs.C, cs.D, cs.A, cs.B
		}
		if cs.B.last() < cs.A.first() || cs.D.last() < cs.C.first() {
			rt.Skip("backward range")
		}
		a, b, c, d := cs.A.first(), cs.B.last(), cs.C.first(), cs.D.last()
		fl, got := check(cs)
		nt := a == c || a == d || b == c || b == d || a == b || c == d
		gran := fmt.Sprintf("gran:%d%d%d%d", g(cs.A), g(cs.B), g(cs.C), g(cs.D))
		s.Eval(harness.JSON(cs), nt, got.String()[19:], gran)
		if s.WantSample() {
			s.Sample(map[string]interface{}{"case": cs, "result": got.String()})
		}
		if fl != nil && s.Report(cs, fl) {
			rt.Fatalf("%s", fl.Msg)
		}
	})
}

func g(e endpoint) int {
	switch {
	case e.D != 0:
		return 0
	case e.M != 0:
		return 1
	}
	return 2
}

func init() {
	harness.Assume("operand convention from TestDateRange_Compare: the receiver is the moving 'Right' row of the documentation diagram, the argument the fixed 'Left' range",
		"relations as closed day intervals: 'Before'/'After' share exactly the boundary day, 'EntirelyBefore/After' share none; when the fixed range is a single day touched at one end two relations are literally true and both are admissible, the converse law then decides",
		"ranges that run backwards are outside the statement")
	replay := func(raw json.RawMessage) *harness.Failure {
		var c cmpCase
		if err := json.Unmarshal(raw, &c); err != nil {
			return harness.Failf("bad-replay", "%v", err)
		}
		fl, _ := check(c)
		return fl
	}
	harness.RegisterReplay("day-windows-exhaustive", replay)
	harness.RegisterReplay("random-mixed-granularity", replay)
}

func TestReplay(t *testing.T) { harness.RunReplay(t) }
