// C17 - published sites reveal nothing about living people when told not to (DESIGN.md 6.17).
package c17

import (
	"encoding/json"
	"fmt"
	"sort"
	"strings"
	"testing"

	"github.com/elliotchance/gedcom/v39"
	"pgregory.net/rapid"

	"verif/internal/gen"
	"verif/internal/harness"
	"verif/internal/pub"
	"verif/internal/ref"
)

func TestMain(m *testing.M) { harness.Main(m, "C17") }

type personSpec struct {
	// Status: dead-deat | dead-deat-nodate | dead-old | living-young | living-nodates | living-burial-only
	Status string `json:"status"`
	// SharesSurnameWith / SharesPlaceWith: index of a (dead) person whose surname / place is reused, -1 none
	SharesSurnameWith int  `json:"shares_surname_with"`
	SharesPlaceWith   int  `json:"shares_place_with"`
	AltName           bool `json:"alt_name,omitempty"`
	Nick              bool `json:"nick,omitempty"`
	NameOnlyGiven     bool `json:"only_given,omitempty"`
	// NamesakeOf: k > 0 = this person has exactly the primary name of person k-1 (only when neither
	// of the two is living: namesakes among the dead are what an index sorts as equal keys)
	NamesakeOf int `json:"namesake_of,omitempty"`
	// Attr: a fact that is not an event, with a date and a place of its own, below this tag
	// ("" none; OCCU, EDUC, RELI, _MILT, or NOTE/x for a place two levels down)
	Attr string `json:"attr,omitempty"`
}

type famSpec struct {
	Husb int   `json:"husb"`
	Wife int   `json:"wife"`
	Kids []int `json:"kids,omitempty"`
	Marr bool  `json:"marr,omitempty"`
}

type privCase struct {
	People   []personSpec `json:"people"`
	Families []famSpec    `json:"families"`
	Vis      string       `json:"vis"` // hide | placeholder
	Mask     int          `json:"mask"`
	Jobs     int          `json:"jobs"`
	Sources  bool         `json:"sources,omitempty"`
	// Before: the same document object is first published once in this mode (all page
	// groups); the site under test is the one published afterwards
	Before string `json:"before,omitempty"`
}

func living(status string) bool { return strings.HasPrefix(status, "living") }

// graph renders the case; variant > 0 replaces every personal datum of the living
// people by other values (for the hide-mode differential).
func (c privCase) graph(variant int) *gen.GraphBP {
	g := &gen.GraphBP{Header: true, BackLinks: true}
	v := ""
	if variant > 0 {
		v = fmt.Sprintf("v%d", variant)
	}
	surname := func(i int) string { return fmt.Sprintf("Sn%dq", i) }
	place := func(i int) string { return fmt.Sprintf("Pl%dq", i) }
	for i, ps := range c.People {
		lv := living(ps.Status)
		tag := ""
		if lv {
			tag = v // only living people change between variants
		}
		p := &gen.PersonBP{ID: fmt.Sprintf("I%d", i+1)}
		sn := surname(i) + tag
		if ps.SharesSurnameWith >= 0 && ps.SharesSurnameWith < len(c.People) && !living(c.People[ps.SharesSurnameWith].Status) && (!lv || variant == 0) {
			sn = surname(ps.SharesSurnameWith)
		}
		if lv && variant > 0 {
			// a different first letter as well
			sn = fmt.Sprintf("Zz%dn%s", i, tag)
		}
		given := fmt.Sprintf("Gv%dq%s", i, tag)
		if ps.NameOnlyGiven {
			p.Names = append(p.Names, gen.Str(given))
		} else {
			p.Names = append(p.Names, gen.Str(given+" /"+sn+"/"))
		}
		if c.namesake(i) {
			p.Names[0] = g.People[ps.NamesakeOf-1].Names[0]
		}
		if ps.AltName {
			p.Names = append(p.Names, gen.Str(fmt.Sprintf("Alt%dq%s /AltS%dq%s/", i, tag, i, tag)))
		}
		if ps.Nick {
			p.More = append(p.More, &gen.NodeBP{Tag: "NAME", Value: gen.Str(fmt.Sprintf("Nmx%dq%s /Nms%dq%s/", i, tag, i, tag)), Kids: []*gen.NodeBP{{Tag: "NICK", Value: gen.Str(fmt.Sprintf("Nk%dq%s", i, tag))}}})
		}
		p.Sex = []string{[]string{"M", "F"}[i%2]}
		pl := place(i) + tag
		if ps.SharesPlaceWith >= 0 && ps.SharesPlaceWith < len(c.People) && !living(c.People[ps.SharesPlaceWith].Status) && (!lv || variant == 0) {
			pl = place(ps.SharesPlaceWith)
		}
		year := func(base int) string {
			if lv && variant > 0 {
				return fmt.Sprintf("%d", base+variant)
			}
			return fmt.Sprintf("%d", base)
		}
		switch ps.Status {
		case "dead-deat":
			p.Events = append(p.Events, gen.EventBP{Tag: "BIRT", Date: gen.Str("3 Sep " + year(1880+i)), Place: gen.Str(pl), HasDate: true},
				gen.EventBP{Tag: "DEAT", Date: gen.Str("1 Jan " + year(1950+i)), Place: gen.Str(pl), HasDate: true})
		case "dead-deat-nodate":
			p.Events = append(p.Events, gen.EventBP{Tag: "BIRT", Date: gen.Str(year(2001)), Place: gen.Str(pl), HasDate: true}, gen.EventBP{Tag: "DEAT", Value: "Y"})
		case "dead-old":
			p.Events = append(p.Events, gen.EventBP{Tag: "BIRT", Date: gen.Str("Abt. " + year(1810+i)), Place: gen.Str(pl), HasDate: true})
		case "living-young":
			p.Events = append(p.Events, gen.EventBP{Tag: "BIRT", Date: gen.Str("4 Apr " + year(2001+i)), Place: gen.Str(pl), HasDate: true},
				gen.EventBP{Tag: "RESI", Date: gen.Str(year(2015)), Place: gen.Str(pl + "res"), HasDate: true})
		case "living-nodates":
			p.Events = append(p.Events, gen.EventBP{Tag: "RESI", Place: gen.Str(pl)})
		case "living-burial-only":
			p.Events = append(p.Events, gen.EventBP{Tag: "BIRT", Date: gen.Str(year(2003)), HasDate: true}, gen.EventBP{Tag: "BURI", Date: gen.Str(year(2020)), Place: gen.Str(pl), HasDate: true})
		}
		if ps.Attr != "" {
			kids := []*gen.NodeBP{{Tag: "DATE", Value: gen.Str(year(2015))}, {Tag: "PLAC", Value: gen.Str(fmt.Sprintf("Ap%dq%s, Apland%dq%s", i, tag, i, tag))}}
			if strings.HasSuffix(ps.Attr, "/x") {
				kids = []*gen.NodeBP{{Tag: "_SUB", Value: "x", Kids: kids}}
			}
			p.More = append(p.More, &gen.NodeBP{Tag: strings.TrimSuffix(ps.Attr, "/x"), Value: gen.Str(fmt.Sprintf("Job%dq%s", i, tag)), Kids: kids})
		}
		p.Notes = []gen.Str{gen.Str(fmt.Sprintf("Nt%dq%s", i, tag))}
		g.People = append(g.People, p)
	}
	for i, f := range c.Families {
		fb := &gen.FamilyBP{ID: fmt.Sprintf("F%d", i+1)}
		id := func(k int) string {
			if k < 0 || k >= len(c.People) {
				return ""
			}
			return g.People[k].ID
		}
		fb.Husb, fb.Wife = id(f.Husb), id(f.Wife)
		for _, k := range f.Kids {
			if x := id(k); x != "" {
				fb.Children = append(fb.Children, x)
			}
		}
		if f.Marr {
			fb.Events = append(fb.Events, gen.EventBP{Tag: "MARR", Date: gen.Str(fmt.Sprintf("%d", 1900+i)), Place: gen.Str(fmt.Sprintf("MarrPl%dq", i)), HasDate: true})
		}
		g.Families = append(g.Families, fb)
	}
	if c.Sources {
		g.Sources = append(g.Sources, &gen.SourceBP{ID: "S1", Title: "A source"})
	}
	return g
}

// namesake: person i carries the primary name of an earlier person, and neither is living.
func (c privCase) namesake(i int) bool {
	k := c.People[i].NamesakeOf - 1
	return k >= 0 && k < i && !living(c.People[i].Status) && !living(c.People[k].Status)
}

// markers of person i that identify the person (names only).
func (c privCase) nameMarkers(i int) []string {
	ps := c.People[i]
	m := []string{fmt.Sprintf("Gv%dq", i)}
	shared := ps.SharesSurnameWith >= 0 && ps.SharesSurnameWith < len(c.People) && !living(c.People[ps.SharesSurnameWith].Status)
	if !ps.NameOnlyGiven && !shared {
		m = append(m, fmt.Sprintf("Sn%dq", i))
	}
	if ps.AltName {
		m = append(m, fmt.Sprintf("Alt%dq", i), fmt.Sprintf("AltS%dq", i))
	}
	if ps.Nick {
		m = append(m, fmt.Sprintf("Nk%dq", i), fmt.Sprintf("Nmx%dq", i), fmt.Sprintf("Nms%dq", i))
	}
	return m
}

type stats struct {
	living, dead int
	connected    bool
	pages        int
}

func check(c privCase) (fl *harness.Failure, st stats) {
	defer func() {
		if p := recover(); p != nil {
			fl = harness.Failf("panic", "panic: %v", p)
		}
	}()
	g := c.graph(0)
	doc, err := gedcom.NewDocumentFromString(g.Text())
	if err != nil {
		return harness.Failf("generator-text-rejected", "%v", err), st
	}
	// the generator's living/dead classification is cross-checked, never followed
	inds := doc.Individuals()
	for i, ps := range c.People {
		if inds[i].IsLiving() != living(ps.Status) {
			return harness.Failf("is-living-disagrees:"+ps.Status, "person %d (%s) IsLiving()=%v\n%s", i, ps.Status, inds[i].IsLiving(), g.Text()), st
		}
		if living(ps.Status) {
			st.living++
		} else {
			st.dead++
		}
	}
	for _, f := range c.Families {
		var l, d bool
		for _, k := range append([]int{f.Husb, f.Wife}, f.Kids...) {
			if k >= 0 && k < len(c.People) {
				if living(c.People[k].Status) {
					l = true
				} else {
					d = true
				}
			}
		}
		if l && d {
			st.connected = true
		}
	}
	opts := pub.FromMask(c.Mask, c.Vis, c.Jobs)
	if c.Before != "" {
		// whatever was published from this document before must not change what leaves now
		if r0 := pub.Publish(doc, pub.All(c.Before, 1)); r0.Panic != "" || r0.Err != nil {
			return harness.Failf("publish-failed", "the earlier publish (%s) failed: %q %v", c.Before, r0.Panic, r0.Err), st
		}
	}
	res := pub.Publish(doc, opts)
	if res.Panic != "" || len(res.Panics) > 0 || res.Err != nil {
		return harness.Failf("publish-failed", "publishing failed: panic=%q render panics=%v err=%v\n%s", res.Panic, res.Panics, res.Err, g.Text()), st
	}
	st.pages = len(res.Files)
	names := make([]string, 0, len(res.Files))
	for n := range res.Files {
		names = append(names, n)
	}
	sort.Strings(names)
	lower := map[string]string{}
	for _, n := range names {
		lower[n] = strings.ToLower(string(res.Files[n]))
	}
	// (i) no name of a living person in any file name or content
	for i, ps := range c.People {
		if !living(ps.Status) {
			continue
		}
		for _, m := range c.nameMarkers(i) {
			lm := strings.ToLower(m)
			for _, n := range names {
				if strings.Contains(strings.ToLower(n), lm) {
					return harness.Failf("living-name-in-file-name", "%s mode: a page named %q exists; %s is a name of living person %d (%s)", c.Vis, n, m, i, ps.Status), st
				}
				if j := strings.Index(lower[n], lm); j >= 0 {
					return harness.Failf("living-name-in:"+pageKind(n), "%s mode: %s contains %q, a name of living person %d (%s): ...%s...", c.Vis, n, m, i, ps.Status, around(string(res.Files[n]), j)), st
				}
			}
		}
	}
	// (iii) positive control: people who are not living stay fully published
	if opts.Individuals {
		for i, ps := range c.People {
			if living(ps.Status) || c.namesake(i) {
				continue
			}
			given := strings.ToLower(fmt.Sprintf("Gv%dq", i))
			page := ""
			for _, n := range names {
				if strings.Contains(strings.ToLower(n), given) {
					page = n
				}
			}
			if page == "" {
				return harness.Failf("dead-person-without-page", "%s mode: person %d (%s) is not living but has no page; pages: %v", c.Vis, i, ps.Status, names), st
			}
			if !strings.Contains(lower[page], given) {
				return harness.Failf("dead-person-name-missing", "%s mode: the page %s does not show the name of person %d", c.Vis, page, i), st
			}
			listed := false
			for _, n := range names {
				if strings.HasPrefix(n, "individuals-") && strings.Contains(lower[n], given) {
					listed = true
				}
			}
			if !listed {
				return harness.Failf("dead-person-not-listed", "%s mode: person %d (%s) is not living but is in none of the individual list pages %v", c.Vis, i, ps.Status, names), st
			}
		}
	}
	// no link points to a page of a living person (their page names would carry the given-name marker;
	// covered by the marker search) and every page is still well formed
	for _, n := range names {
		if err := ref.WellFormed(string(res.Files[n])); err != nil {
			return harness.Failf("ill-formed-page", "%s: %v", n, err), st
		}
	}
	// (ii) hide mode: the site does not depend on the living people's personal data
	if c.Vis == "hide" && st.living > 0 {
		g2 := c.graph(1)
		doc2, err := gedcom.NewDocumentFromString(g2.Text())
		if err != nil {
			return harness.Failf("generator-text-rejected", "%v", err), st
		}
		if c.Before != "" {
			pub.Publish(doc2, pub.All(c.Before, 1))
		}
		res2 := pub.Publish(doc2, opts)
		if res2.Panic != "" || len(res2.Panics) > 0 || res2.Err != nil {
			return harness.Failf("publish-failed", "publishing the variant failed: %q %v %v", res2.Panic, res2.Panics, res2.Err), st
		}
		var names2 []string
		for n := range res2.Files {
			names2 = append(names2, n)
		}
		sort.Strings(names2)
		if strings.Join(names, " ") != strings.Join(names2, " ") {
			return harness.Failf("hide-differential:file-names", "hide mode: changing only the living people's data changes the set of files: %v vs %v", names, names2), st
		}
		for _, n := range names {
			a, b := string(res.Files[n]), string(res2.Files[n])
			if a != b {
				j := 0
				for j < len(a) && j < len(b) && a[j] == b[j] {
					j++
				}
				return harness.Failf("hide-differential:"+pageKind(n), "hide mode: %s differs when only the living people's names, dates and places change:\n  A : ...%s...\n  A': ...%s...", n, around(a, j), around(b, j)), st
			}
		}
	}
	return nil, st
}

func pageKind(n string) string {
	switch {
	case strings.HasPrefix(n, "individuals-"):
		return "individual-list"
	case n == "places.html", n == "families.html", n == "surnames.html", n == "sources.html", n == "statistics.html":
		return strings.TrimSuffix(n, ".html")
	case strings.HasPrefix(n, "pl") || strings.HasPrefix(n, "marrpl"):
		return "place-page"
	case strings.HasPrefix(n, "gv"):
		return "individual-page"
	}
	return "other-page"
}

func around(s string, i int) string {
	a, b := i-70, i+70
	if a < 0 {
		a = 0
	}
	if b > len(s) {
		b = len(s)
	}
	return s[a:b]
}

var statuses = []string{"dead-deat", "dead-deat", "dead-deat-nodate", "dead-old", "living-young", "living-young", "living-nodates", "living-burial-only"}

func genCase(rt *rapid.T) privCase {
	c := privCase{Vis: rapid.SampledFrom([]string{"hide", "hide", "placeholder"}).Draw(rt, "vis"),
		Mask:    rapid.SampledFrom([]int{63, 63, 63, 63, 1, 2, 4, 8, 32, 3, 5, 9, 62, 47}).Draw(rt, "mask"),
		Jobs:    rapid.SampledFrom([]int{1, 1, 4}).Draw(rt, "jobs"),
		Before:  rapid.SampledFrom([]string{"", "", "", "show", "show", "placeholder", "hide"}).Draw(rt, "before"),
		Sources: rapid.Bool().Draw(rt, "sources")}
	n := rapid.IntRange(1, 6).Draw(rt, "people")
	// (one document in 40 is big: 25..70 people, 5..20 families with up to 9 children)
	big := rapid.IntRange(0, 39).Draw(rt, "big") == 20
	if big {
		n = rapid.IntRange(25, 70).Draw(rt, "bigPeople")
	}
	for i := 0; i < n; i++ {
		ps := personSpec{Status: rapid.SampledFrom(statuses).Draw(rt, "status"), SharesSurnameWith: -1, SharesPlaceWith: -1}
		if i > 0 && rapid.IntRange(0, 2).Draw(rt, "sharesSurname") == 0 {
			ps.SharesSurnameWith = rapid.IntRange(0, i-1).Draw(rt, "surnameOf")
		}
		if i > 0 && rapid.IntRange(0, 2).Draw(rt, "sharesPlace") == 0 {
			ps.SharesPlaceWith = rapid.IntRange(0, i-1).Draw(rt, "placeOf")
		}
		ps.Attr = rapid.SampledFrom([]string{"", "", "", "OCCU", "EDUC", "RELI", "_MILT", "EVEN/x", "OCCU/x"}).Draw(rt, "attr")
		ps.AltName = rapid.IntRange(0, 2).Draw(rt, "alt") == 0
		ps.Nick = rapid.IntRange(0, 3).Draw(rt, "nick") == 0
		ps.NameOnlyGiven = rapid.IntRange(0, 6).Draw(rt, "onlyGiven") == 0
		if i > 0 && rapid.IntRange(0, 5).Draw(rt, "namesake") == 2 {
			ps.NamesakeOf = 1 + rapid.IntRange(0, i-1).Draw(rt, "namesakeOf")
		}
		c.People = append(c.People, ps)
	}
	nf, maxKids := rapid.IntRange(0, 3).Draw(rt, "families"), 3
	if big {
		nf, maxKids = rapid.IntRange(5, 20).Draw(rt, "bigFamilies"), 9
	}
	pick := func(label string) int {
		if rapid.IntRange(0, 4).Draw(rt, label+"none") == 0 {
			return -1
		}
		return rapid.IntRange(0, n-1).Draw(rt, label)
	}
	for i := 0; i < nf; i++ {
		f := famSpec{Husb: pick("husb"), Wife: pick("wife"), Marr: rapid.Bool().Draw(rt, "marr")}
		nk := rapid.IntRange(0, maxKids).Draw(rt, "kids")
		for k := 0; k < nk; k++ {
			if x := pick("kid"); x >= 0 {
				f.Kids = append(f.Kids, x)
			}
		}
		c.Families = append(c.Families, f)
	}
	return c
}

func TestCheckPrivacy(t *testing.T) {
	s := harness.NewSub("living-people-marked-documents",
		"family graphs (1..6 people, 0..3 families; one in 40 with 25..70 people and 5..20 families of up to 9 children) in which every name part of every person is a unique marker (given, surname, an alternative NAME record, a further NAME with NICK) and places/notes are markers too, incl. the place and date of a fact that is not an event (OCCU, EDUC, RELI, a custom tag, one or two levels down); status by construction and far from the 100-year boundary: dead = DEAT with date, DEAT without date, or born about 1810 without DEAT; living = born 2001+ without DEAT, no dates at all, or born 2003 with BURI but no DEAT; living people in every role (spouse, parent, child, unconnected), optionally sharing a surname or a place with a dead person; dead people who carry exactly the name of another dead person; visibility hide/placeholder x page-group masks x jobs 1/4; in four of seven cases the same document object was published once before (show, placeholder or hide, all page groups) and the site under test is the later one. Oracle: IsLiving() agrees with the construction; no file name and no file content (case-insensitive) contains a name marker of a living person; every non-living person has a page, is listed, and the name shows; pages stay well formed; in hide mode the published files are byte-identical when only the living people's names, dates, places and notes are changed; non-trivial = a living and a dead person connected by a family")
	s.Rapid(t, harness.Share(harness.Pick(30000, 600000)), 170, func(rt *rapid.T) {
		c := genCase(rt)
		s.Crumb(c)
		fl, st := check(c)
		nt := st.living >= 1 && st.dead >= 1 && st.connected
		cls := []string{"vis:" + c.Vis, fmt.Sprintf("mask:%d", c.Mask), "published-before:" + c.Before}
		seen := map[string]bool{}
		for _, p := range c.People {
			if !seen[p.Status] {
				seen[p.Status] = true
				cls = append(cls, "status:"+p.Status)
			}
		}
		if len(c.People) >= 20 {
			cls = append(cls, "big:>=20-people")
		}
		s.Eval(harness.JSON(c), nt, cls...)
		if nt && len(c.People) < 20 {
			s.MaybeSample(c)
		}
		if fl != nil && s.Report(c, fl) {
			rt.Fatalf("%s: %s", fl.Sig, fl.Msg)
		}
	})
}

func init() {
	harness.Assume("living/dead is fixed by the generator with fixed years (dead: DEAT present or born about 1810; living: born 2001 or later without DEAT, or no birth/baptism date) and cross-checked against IsLiving(); the check stays valid while today's date is between 2004 and 2100",
		"a surname or place that a living person shares with a person who is not living legitimately appears; only markers that belong to living people alone are searched for",
		"the hide-mode differential changes names (incl. the first letter of the surname), event dates, places and notes of living people only")
	harness.RegisterReplay("living-people-marked-documents", func(raw json.RawMessage) *harness.Failure {
		var c privCase
		if err := json.Unmarshal(raw, &c); err != nil {
			return harness.Failf("bad-replay", "%v", err)
		}
		fl, _ := check(c)
		return fl
	})
}

func TestReplay(t *testing.T) { harness.RunReplay(t) }
