// C19 - publishing yields a closed, confined, deterministic set of files (DESIGN.md 6.19).
package c19

import (
	"crypto/sha1"
	"encoding/json"
	"fmt"
	"os"
	"os/exec"
	"path/filepath"
	"regexp"
	"sort"
	"strings"
	"sync/atomic"
	"testing"
	"time"

	"github.com/elliotchance/gedcom/v39"
	"pgregory.net/rapid"

	"verif/internal/gen"
	"verif/internal/harness"
	"verif/internal/pub"
	"verif/internal/ref"
)

func TestMain(m *testing.M) { harness.Main(m, "C19") }

type pubCase struct {
	Doc  *gen.GraphBP `json:"doc"`
	Vis  string       `json:"vis"`
	Mask int          `json:"mask"`
	Jobs []int        `json:"jobs"`
	Reps int          `json:"reps,omitempty"`
	// Before: a document published earlier in the same process (history)
	Before *gen.GraphBP `json:"before,omitempty"`
	// FaultJobs: run the failing-writer enumeration with these job counts
	FaultJobs []int `json:"fault_jobs,omitempty"`
	// SameDoc: the history is an earlier publish of the SAME document object with other
	// options (BeforeVis, BeforeMask) instead of another document
	SameDoc    bool   `json:"same_doc,omitempty"`
	BeforeVis  string `json:"before_vis,omitempty"`
	BeforeMask int    `json:"before_mask,omitempty"`
	// Edit: (with SameDoc) between the two publishes the document object is edited through the
	// public API; the child then publishes Text, the GEDCOM text of the edited document
	Edit  string `json:"edit,omitempty"` // add-name | add-birth | delete-person | add-child | marry
	EditA int    `json:"edit_a,omitempty"`
	EditB int    `json:"edit_b,omitempty"`
	Text  string `json:"text,omitempty"`
	// FailFrom > 0 (race children only): every write from this one on fails
	FailFrom int  `json:"fail_from,omitempty"`
	Hostile  bool `json:"hostile,omitempty"`
}

// ---- generator: family graphs with hostile names and pointers ----------------------------------

var hostileSurnames = []string{"9lives", "Écrivain", "#hash", "Smith", "smith", "SMITH", "O'Neil", "de la Cruz", "Places", "Families", "Surnames", "Sources", "Statistics", "李", "Zoë", "-", "..", "a/b", "Index"}
var hostileGivens = []string{"John", "john", "Places", "", "Individuals-a", "Zoë", "Anne-Marie", "J.", "../x", "a b", "A  B"}
var hostilePlaces = []string{"Families", "families", "Places", "John Smith", "john-smith", "Sydney, Australia", "Sydney,Australia", "sydney", "Ōsaka", "../up", "a/b", "Statistics", "S1", "", ",", "Surnames, Sources"}
var hostileSourcePointers = []string{"S1", "../x", "a/b", "places", "families", "john-smith", "S 1", "s1", "sources", "..", "x.html", "S1#frag", "S?q=1", "%2e%2e", "a b", "a-b", "a_b", "a_20b", "S-1", "Zoë", "Zo_c3_ab", "Places", "individuals-s", "statistics", "surnames", "London", "london-england"}

// bigDocs: one document in bigDocs is big (25..70 people); only the first sub-check sets it - the
// enumeration of failing writers, the child processes of the histories and the race-detector children
// publish every document dozens of times
var bigDocs = 0

func genDoc(rt *rapid.T, hostile bool) *gen.GraphBP {
	g := gen.Graph(gen.GraphOpts{MaxPeople: 5, MaxFamilies: 2, WildDates: true, Big: bigDocs, BigLo: 25, BigHi: 45}).Draw(rt, "doc")
	for i, p := range g.People {
		// most people are dead so that every page group is populated in every mode; some are
		// living for certain (born 2001, no death) so that the visibility matters
		switch rapid.IntRange(0, 5).Draw(rt, "dead") {
		case 0:
		case 1:
			p.Events = []gen.EventBP{{Tag: "BIRT", Date: "2 Feb 2001", HasDate: true, Place: "Sydney, Australia"}}
		default:
			p.Events = append(p.Events, gen.EventBP{Tag: "DEAT", Date: "1900", HasDate: true})
		}
		if hostile && rapid.IntRange(0, 1).Draw(rt, "hostileName") == 0 {
			p.Names = []gen.Str{gen.Str(rapid.SampledFrom(hostileGivens).Draw(rt, "given") + " /" + rapid.SampledFrom(hostileSurnames).Draw(rt, "surname") + "/")}
		}
		if hostile && rapid.IntRange(0, 2).Draw(rt, "hostilePlace") == 0 {
			p.Events = append(p.Events, gen.EventBP{Tag: "RESI", Place: gen.Str(rapid.SampledFrom(hostilePlaces).Draw(rt, "place")), Date: "1880", HasDate: true})
		}
		if len(p.Names) == 0 {
			p.Names = []gen.Str{gen.Str(fmt.Sprintf("Nameless%d /Person/", i))}
		}
	}
	// "people and places whose names collapse to the same file key": a pair made to collide,
	// the place known from a person who may be living (so that it disappears in hide mode)
	if hostile && len(g.People) > 0 && rapid.IntRange(0, 2).Draw(rt, "collidingPair") == 0 {
		pair := rapid.SampledFrom([][2]string{{"John /Smith/", "John Smith"}, {"Sydney", "Sydney"}, {"/Paris/", "paris"}, {"李 /王/", "北京"}, {"Anne-Marie /O'Neil/", "Anne Marie, O Neil"},
			{"New /York/", "New York"}, {"A  B", "a-b"}, {"Zoë /Zoë/", "Zo, Zo"}}).Draw(rt, "pair")
		a := g.People[rapid.IntRange(0, len(g.People)-1).Draw(rt, "pairPerson")]
		b := g.People[rapid.IntRange(0, len(g.People)-1).Draw(rt, "pairPlaceOf")]
		a.Names = []gen.Str{gen.Str(pair[0])}
		b.Events = append(b.Events, gen.EventBP{Tag: "RESI", Place: gen.Str(pair[1]), Date: "1890", HasDate: true})
		if rapid.Bool().Draw(rt, "numberedPlace") {
			// ... and a place whose key is the first numbered key that person would get
			b.Events = append(b.Events, gen.EventBP{Tag: "RESI", Place: gen.Str(pair[1] + " 1"), Date: "1891", HasDate: true},
				gen.EventBP{Tag: "RESI", Place: gen.Str(pair[1] + "-2"), Date: "1892", HasDate: true})
		}
		if rapid.Bool().Draw(rt, "second") {
			// a second person of the same name: the keys are numbered
			g.People = append(g.People, &gen.PersonBP{ID: fmt.Sprintf("I%d", len(g.People)+1), Names: []gen.Str{gen.Str(pair[0])},
				Events: []gen.EventBP{{Tag: "DEAT", Date: "1901", HasDate: true}}})
		}
	}
	// names, places and (below) source pointers that are longer than a file name may be on most
	// file systems (255 bytes) and differ only behind that point; the writer of the check is in memory
	longPrefix := ""
	if hostile && len(g.People) > 0 && rapid.IntRange(0, 7).Draw(rt, "longPrefix") == 3 {
		longPrefix = strings.Repeat(rapid.SampledFrom([]string{"Abcdefghi ", "Wilhelmina-", "Ж", "x"}).Draw(rt, "longUnit"), 40)
		for len(longPrefix) < rapid.SampledFrom([]int{240, 250, 256, 300}).Draw(rt, "longLen") {
			longPrefix += "y"
		}
		a := g.People[rapid.IntRange(0, len(g.People)-1).Draw(rt, "longPerson")]
		a.Names = []gen.Str{gen.Str(longPrefix + "a /Long/")}
		g.People = append(g.People,
			&gen.PersonBP{ID: fmt.Sprintf("I%d", len(g.People)+1), Names: []gen.Str{gen.Str(longPrefix + "b /Long/")}, Events: []gen.EventBP{{Tag: "DEAT", Date: "1902", HasDate: true}, {Tag: "RESI", Place: gen.Str(longPrefix + "c"), Date: "1893", HasDate: true}}},
			&gen.PersonBP{ID: fmt.Sprintf("I%d", len(g.People)+2), Names: []gen.Str{gen.Str(longPrefix + "a /Long/")}, Events: []gen.EventBP{{Tag: "DEAT", Date: "1903", HasDate: true}, {Tag: "RESI", Place: gen.Str(longPrefix + "d"), Date: "1894", HasDate: true}}})
	}
	ns := rapid.IntRange(1, 3).Draw(rt, "sources")
	g.Sources = nil
	used := map[string]bool{}
	// two sources whose pointers differ only where a page name has to escape something: letters
	// that share their first byte in UTF-8, a character and the text of its own escape
	var sourcePair []string
	if hostile && rapid.IntRange(0, 3).Draw(rt, "sourcePair") == 0 {
		sourcePair = rapid.SampledFrom([][]string{{"Möller", "Müller"}, {"Zoë", "Zoé"}, {"Жук", "Дук"}, {"李", "杏"}, {"a b", "a_20b"}, {"S 1", "S_201"}, {"a/b", "a_2fb"}, {"é", "è"}}).Draw(rt, "sourcePairOf")
		if ns < 2 {
			ns = 2
		}
	}
	for i := 0; i < ns; i++ {
		id := fmt.Sprintf("S%d", i+1)
		if hostile && rapid.Bool().Draw(rt, "hostileSource") {
			id = rapid.SampledFrom(hostileSourcePointers).Draw(rt, "sourcePointer")
		}
		if i < len(sourcePair) {
			id = sourcePair[i]
		}
		if longPrefix != "" && i < 2 && !strings.ContainsAny(longPrefix, " ") {
			id = longPrefix + []string{"s", "t"}[i]
		}
		if used[id] {
			continue
		}
		used[id] = true
		g.Sources = append(g.Sources, &gen.SourceBP{ID: id, Title: gen.Str(fmt.Sprintf("Source %d", i+1)), More: []*gen.NodeBP{{Tag: "AUTH", Value: "An author"}}})
	}
	if len(g.People) == 0 {
		g.People = append(g.People, &gen.PersonBP{ID: "I1", Names: []gen.Str{"Only /Person/"}, Events: []gen.EventBP{{Tag: "DEAT", Date: "1900", HasDate: true}, {Tag: "BIRT", Place: "Sydney", Date: "1850", HasDate: true}}})
	}
	return g
}

// ---- oracles -----------------------------------------------------------------------------------

func plainName(n string) string {
	switch {
	case n == "":
		return "empty"
	case n == "." || n == "..":
		return "dot"
	case strings.ContainsAny(n, "/\\"):
		return "separator"
	case strings.ContainsRune(n, 0):
		return "nul"
	}
	return ""
}

var absolute = regexp.MustCompile(`^(https?:)?//`)

func digest(files map[string][]byte) map[string]string {
	out := map[string]string{}
	for n, b := range files {
		out[n] = fmt.Sprintf("%x", sha1.Sum(b))
	}
	return out
}

func sameSite(a, b map[string]string) (bool, string) {
	var names []string
	for n := range a {
		names = append(names, n)
	}
	for n := range b {
		if _, ok := a[n]; !ok {
			names = append(names, n)
		}
	}
	sort.Strings(names)
	for _, n := range names {
		x, okx := a[n]
		y, oky := b[n]
		switch {
		case !okx:
			return false, fmt.Sprintf("%q only in the second", n)
		case !oky:
			return false, fmt.Sprintf("%q only in the first", n)
		case x != y:
			return false, fmt.Sprintf("%q differs", n)
		}
	}
	return true, ""
}

// hangLimit is four orders of magnitude above the time a publish of these documents takes.
const hangLimit = 30 * time.Second

var hangSeen atomic.Bool

func publish(g *gen.GraphBP, vis string, mask, jobs, failAt int) (*pub.Result, *harness.Failure) {
	doc, err := gedcom.NewDocumentFromString(g.Text())
	if err != nil {
		return nil, harness.Failf("generator-text-rejected", "%v", err)
	}
	o := pub.FromMask(mask, vis, jobs)
	if failAt >= 0 {
		o.FailAt = failAt
	} else {
		o.FailFrom = -failAt // every write from the k-th on fails
	}
	res := pub.Publish(doc, o)
	if res.Panic != "" || len(res.Panics) > 0 {
		return nil, harness.Failf("publish-panic", "publishing panics: %q %v\n%s", res.Panic, res.Panics, g.Text())
	}
	return res, nil
}

type stats struct {
	files     int
	hostile   bool
	faults    int
	nontriv   bool
	links     int
	histories int
}

// checkSite returns every failing clause (one per signature): a case inside a
// listed finding class must still be checked against all the other clauses.
func checkSite(c pubCase, res *pub.Result, label string) (fails []*harness.Failure) {
	seen := map[string]bool{}
	add := func(f *harness.Failure) {
		if !seen[f.Sig] {
			seen[f.Sig] = true
			fails = append(fails, f)
		}
	}
	for _, n := range res.Names {
		if why := plainName(n); why != "" {
			add(harness.Failf("file-name-not-confined:"+why, "%s: the file name %q is not a plain name inside the output directory (%s)\n%s", label, n, why, c.Doc.Text()))
		}
	}
	names := make([]string, 0, len(res.Writes))
	for n := range res.Writes {
		names = append(names, n)
	}
	sort.Strings(names)
	for _, n := range names {
		if res.Writes[n] > 1 {
			for _, kind := range collisionKinds(res.Kinds[n]) {
				add(harness.Failf("file-name-collision:"+kind, "%s: %d different pages (%v) were handed to the writer under the name %q\n%s", label, res.Writes[n], res.Kinds[n], n, c.Doc.Text()))
			}
		}
	}
	// case-insensitive collisions matter on common file systems, but the statement only
	// says "no two pages share a name": only exact collisions are judged
	for _, n := range names {
		toks, err := ref.TokenizeHTML(string(res.Files[n]))
		if err != nil {
			add(harness.Failf("page-not-tokenisable", "%s: %s: %v", label, n, err))
			continue
		}
		for _, l := range ref.Links(toks) {
			if l == "" || strings.HasPrefix(l, "#") || absolute.MatchString(l) {
				continue
			}
			target := l
			if i := strings.IndexByte(target, '#'); i >= 0 {
				target = target[:i]
			}
			if _, ok := res.Files[target]; !ok {
				// finding C19-F2: links into a page group that was switched off
				if c.Mask&63 != 63 {
					if full, f := publish(c.Doc, c.Vis, 63, 1, 0); f == nil {
						if _, exists := full.Files[target]; exists {
							// (attributed by the kind of page that is linked to: which groups link into
							// which is part of the finding)
							add(harness.Failf("dangling-link:into-disabled-page-group:"+groupsOf(full.Kinds[target], c.Mask), "%s: %s links to %q, a page of a group that is switched off (mask %d; files: %v)\n%s", label, n, l, c.Mask, names, c.Doc.Text()))
							continue
						}
					}
				}
				add(harness.Failf("dangling-link:"+linkKind(target), "%s: %s links to %q but no file %q was generated (files: %v)\n%s", label, n, l, target, names, c.Doc.Text()))
			}
		}
	}
	return fails
}

// collisionKinds names the pairs of page kinds that collided under one name
// ("A+B" sorted, "A*2" for two pages of one kind): the unit of finding attribution.
func collisionKinds(kinds []string) []string {
	seen := map[string]bool{}
	var out []string
	for i := range kinds {
		for j := i + 1; j < len(kinds); j++ {
			a, b := kinds[i], kinds[j]
			if a > b {
				a, b = b, a
			}
			k := a + "+" + b
			if a == b {
				k = a + "*2"
			}
			if !seen[k] {
				seen[k] = true
				out = append(out, k)
			}
		}
	}
	sort.Strings(out)
	return out
}

// groupsOf names the page groups (the six switches) that the page kinds belong to.
// When several pages share the name (finding C19-F1) and one of them is a page of the
// individuals group while that group is off, the link is counted as one into that group.
func groupsOf(kinds []string, mask int) string {
	set := map[string]bool{}
	for _, k := range kinds {
		switch k {
		case "IndividualPage", "IndividualListPage":
			set["individuals"] = true
		case "PlacePage", "PlaceListPage":
			set["places"] = true
		case "FamilyListPage":
			set["families"] = true
		case "SurnameListPage":
			set["surnames"] = true
		case "SourcePage", "SourceListPage":
			set["sources"] = true
		case "StatisticsPage":
			set["statistics"] = true
		default:
			set[k] = true
		}
	}
	if set["individuals"] && mask&1 == 0 {
		return "individuals"
	}
	var out []string
	for g := range set {
		out = append(out, g)
	}
	sort.Strings(out)
	return strings.Join(out, "+")
}

func linkKind(t string) string {
	switch {
	case strings.HasPrefix(t, "individuals-"):
		return "individual-index"
	case t == "places.html" || t == "families.html" || t == "surnames.html" || t == "sources.html" || t == "statistics.html":
		return "fixed-page"
	}
	return "entity-page"
}

func check(c pubCase) (fails []*harness.Failure, st stats) {
	defer func() {
		if p := recover(); p != nil {
			fails = append(fails, harness.Failf("panic", "panic: %v", p))
		}
	}()
	one := func(f *harness.Failure) []*harness.Failure { return append(fails, f) }
	st.hostile = c.Hostile
	if c.Before != nil {
		// history: something else was published earlier in this process
		if _, f := publish(c.Before, c.Vis, c.Mask, 1, 0); f != nil {
			return one(f), st
		}
		st.histories++
	}
	var base map[string]string
	reps := c.Reps
	if reps < 1 {
		reps = 1
	}
	var first *pub.Result
	collidedAny := false
	for _, jobs := range c.Jobs {
		for r := 0; r < reps; r++ {
			res, f := publish(c.Doc, c.Vis, c.Mask, jobs, 0)
			if f != nil {
				return one(f), st
			}
			if res.Err != nil {
				return one(harness.Failf("publish-error", "Publish returned %v without any fault", res.Err)), st
			}
			label := fmt.Sprintf("jobs=%d", jobs)
			collided := false
			for _, f := range checkSite(c, res, label) {
				if strings.HasPrefix(f.Sig, "file-name-collision") {
					collided, collidedAny = true, true
				}
				dup := false
				for _, g := range fails {
					if g.Sig == f.Sig {
						dup = true
					}
				}
				if !dup {
					fails = append(fails, f)
				}
			}
			d := digest(res.Files)
			if base == nil {
				base, first = d, res
				st.files = len(res.Files)
			} else if ok, why := sameSite(base, d); !ok && !collided {
				// (when two pages share a name the survivor depends on the schedule: that is finding C19-F1)
				return one(harness.Failf("nondeterministic:jobs-or-repetition", "publishing the same document with %s (repetition %d) gives a different site than jobs=%d: %s\n%s", label, r, c.Jobs[0], why, c.Doc.Text())), st
			}
		}
	}
	// faults: the writer fails at the k-th file, for every k (after the first hang of this
	// process the enumeration is switched off: every further hang would cost hangLimit again
	// and leak the blocked goroutines, and one replay is what is needed)
	if first != nil && !hangSeen.Load() {
		for _, jobs := range c.FaultJobs {
			for k := 1; k <= first.Calls; k++ {
				// once: only the k-th write fails; from: the k-th and every later write fail
				for _, mode := range []string{"once", "from"} {
					failAt := k
					if mode == "from" {
						failAt = -k
					}
					done := make(chan *pub.Result, 1)
					go func() {
						res, _ := publish(c.Doc, c.Vis, c.Mask, jobs, failAt)
						done <- res
					}()
					select {
					case res := <-done:
						st.faults++
						if res == nil {
							return one(harness.Failf("publish-panic", "publishing with a failing writer panics")), st
						}
						if res.Failed && res.Err == nil {
							return one(harness.Failf("write-failure-swallowed", "the writer failed at file %d of %d (%s, jobs=%d) but Publish returned nil", k, first.Calls, mode, jobs)), st
						}
						if !res.Failed {
							return one(harness.Failf("fault-not-reached", "oracle: the %d-th write never happened (jobs=%d, %d calls)", k, jobs, res.Calls)), st
						}
					case <-time.After(hangLimit):
						hangSeen.Store(true)
						return one(harness.Failf("publish-hangs-on-write-failure", "the writer failed at file %d of %d (%s, jobs=%d) and Publish did not return within %v", k, first.Calls, mode, jobs, hangLimit)), st
					}
				}
			}
		}
	}
	// one Publisher used again after a publish that failed (the disk was full, space was freed,
	// the same Publisher is asked again): the second site is the whole site
	if first != nil && base != nil && len(c.FaultJobs) > 0 && !hangSeen.Load() && first.Calls > 0 {
		for _, jobs := range c.FaultJobs {
			for _, k := range []int{1, 1 + first.Calls/2, first.Calls} {
				doc, derr := gedcom.NewDocumentFromString(c.Doc.Text())
				if derr != nil {
					break
				}
				o := pub.FromMask(c.Mask, c.Vis, jobs)
				o.FailFrom = k
				type pair struct{ a, b *pub.Result }
				done := make(chan pair, 1)
				go func() {
					a, b := pub.Retry(doc, o)
					done <- pair{a, b}
				}()
				select {
				case r := <-done:
					if r.b.Panic != "" || len(r.b.Panics) > 0 {
						return one(harness.Failf("publish-panic", "publishing again with the same Publisher panics: %q %v", r.b.Panic, r.b.Panics)), st
					}
					if r.a.Failed && r.b.Err != nil {
						return one(harness.Failf("retry-fails", "after a publish that failed at file %d (jobs=%d), the same Publisher with a working writer returns %v", k, jobs, r.b.Err)), st
					}
					if ok, why := sameSite(base, digest(r.b.Files)); r.a.Failed && !ok && !collidedAny {
						return one(harness.Failf("retry-incomplete", "after a publish that failed at file %d (jobs=%d), the same Publisher with a working writer returns nil but the site is not the whole site: %s", k, jobs, why)), st
					}
				case <-time.After(hangLimit):
					hangSeen.Store(true)
					return one(harness.Failf("publish-hangs-on-retry", "publishing again with the same Publisher after a failure at file %d (jobs=%d) did not return within %v", k, jobs, hangLimit)), st
				}
			}
		}
	}
	st.nontriv = len(c.Doc.Sources) >= 1 && len(c.Doc.People) >= 2 && (c.Hostile || maxInt(c.Jobs) > 1 || st.faults > 0)
	return fails, st
}

func maxInt(xs []int) int {
	m := 0
	for _, x := range xs {
		if x > m {
			m = x
		}
	}
	return m
}

func genCase(rt *rapid.T) pubCase {
	c := pubCase{Hostile: rapid.IntRange(0, 2).Draw(rt, "hostile") > 0}
	c.Doc = genDoc(rt, c.Hostile)
	c.Vis = rapid.SampledFrom([]string{"show", "show", "hide", "placeholder"}).Draw(rt, "vis")
	c.Mask = rapid.SampledFrom([]int{63, 63, 63, 63, 1, 2, 16, 3, 17, 61, 47, 62, 31}).Draw(rt, "mask")
	return c
}

func TestCheckSites(t *testing.T) {
	s := harness.NewSub("closed-confined-deterministic",
		"family graphs (<= 5 people, <= 2 families; one in 150 with 25..45 people) with hostile content (sources with pointers like ../x, a/b, places, families, x.html, S1#frag; people named like fixed pages, case variants of one name, surnames starting with digits, symbols and multi-byte letters, empty given names; places whose names collapse to the file key of a person or of a fixed page) x visibility x page-group masks x jobs {1,2,8,16} with repetitions; for a third of the cases another document is published first in the same process; oracle: every file name is a plain name, no name is handed to the writer twice, every href and location.href target is '#...', an absolute URL or a generated file, and the map name->bytes is identical across jobs and repetitions; non-trivial = >= 1 source, >= 2 people and hostile content or jobs > 1")
	s.Rapid(t, harness.Share(harness.Pick(1500, 60000)), 190, func(rt *rapid.T) {
		bigDocs = 150
		c := genCase(rt)
		bigDocs = 0
		c.Jobs = []int{1, 2, 8, 16}
		c.Reps = 1
		if rapid.IntRange(0, 2).Draw(rt, "history") == 0 {
			c.Before = genDoc(rt, true)
		}
		s.Crumb(c)
		fls, st := check(c)
		cls := []string{"vis:" + c.Vis, fmt.Sprintf("mask:%d", c.Mask)}
		if c.Hostile {
			cls = append(cls, "hostile")
		}
		if c.Before != nil {
			cls = append(cls, "after-another-document")
		}
		if c.Doc.IsBig() {
			cls = append(cls, "big:>=20-people")
		}
		s.Eval(harness.JSON(c), st.nontriv, cls...)
		if st.nontriv && !c.Doc.IsBig() {
			s.MaybeSample(c)
		}
		for _, fl := range fls {
			if s.Report(c, fl) {
				rt.Fatalf("%s: %s", fl.Sig, fl.Msg)
			}
		}
	})
}

func TestCheckFaults(t *testing.T) {
	s := harness.NewSub("writer-fails-at-kth-file",
		"for generated documents the file writer fails at the k-th WriteFile call only, and from the k-th call on (a full disk), for EVERY k from 1 to the number of files (exhaustive per document), with jobs 1, 4 and 16: Publish must return within 30 s with a non-nil error; non-trivial = the document has >= 2 people and a source")
	s.Rapid(t, harness.Share(harness.Pick(160, 6000)), 191, func(rt *rapid.T) {
		c := genCase(rt)
		c.Jobs = []int{1}
		c.FaultJobs = []int{1, 4, 16}
		s.Crumb(c)
		fls, st := check(c)
		s.Eval(harness.JSON(c), st.nontriv, fmt.Sprintf("files<=%d", (st.files/10+1)*10))
		s.Class("injected-faults", int64(st.faults))
		if st.nontriv {
			s.MaybeSample(c)
		}
		for _, fl := range fls {
			if s.Report(c, fl) {
				rt.Fatalf("%s: %s", fl.Sig, fl.Msg)
			}
		}
	})
}

// ---- history across processes: B after A in this process vs B alone in a fresh process ----------------

func TestPublishChild(t *testing.T) {
	path := os.Getenv("VERIF_C19_CHILD")
	if path == "" {
		t.Skip("not a child")
	}
	b, err := os.ReadFile(path)
	if err != nil {
		t.Fatal(err)
	}
	var c pubCase
	if err := json.Unmarshal(b, &c); err != nil {
		t.Fatal(err)
	}
	jobs := 1
	if len(c.Jobs) > 0 {
		jobs = c.Jobs[0]
	}
	reps := c.Reps
	if reps < 1 {
		reps = 1
	}
	var res *pub.Result
	for r := 0; r < reps; r++ {
		var f *harness.Failure
		if c.Text != "" {
			doc, derr := gedcom.NewDocumentFromString(c.Text)
			if derr != nil {
				fmt.Printf("CHILD-FAILURE text-rejected\n")
				return
			}
			res = pub.Publish(doc, pub.FromMask(c.Mask, c.Vis, jobs))
			if res.Panic != "" || len(res.Panics) > 0 {
				fmt.Printf("CHILD-FAILURE publish-panic\n")
				return
			}
			continue
		}
		res, f = publish(c.Doc, c.Vis, c.Mask, jobs, -c.FailFrom)
		if f != nil {
			fmt.Printf("CHILD-FAILURE %s\n", f.Sig)
			return
		}
	}
	out, _ := json.Marshal(digest(res.Files))
	fmt.Printf("CHILD-DIGEST %s\n", out)
}

func runChild(bin, dir string, c pubCase, extraEnv ...string) (string, error) {
	path := filepath.Join(dir, "case.json")
	b, _ := json.Marshal(c)
	if err := os.WriteFile(path, b, 0o644); err != nil {
		return "", err
	}
	// (a publish of these documents takes milliseconds, seconds under the race detector)
	cmd := exec.Command(bin, "-test.run", "^TestPublishChild$", "-test.timeout", "90s")
	cmd.Env = append(append(os.Environ(), "VERIF_C19_CHILD="+path, "VERIF_OUT=", "VERIF_CRUMB="), extraEnv...)
	out, err := cmd.CombinedOutput()
	return string(out), err
}

func TestCheckHistory(t *testing.T) {
	dir, err := os.MkdirTemp(os.Getenv("VERIF_SCRATCH"), "c19hist")
	if err != nil {
		t.Fatal(err)
	}
	defer os.RemoveAll(dir)
	self, _ := os.Executable()
	s := harness.NewSub("history-across-processes",
		"a publish that follows a history in this process - another document A published first (two thirds), or the SAME document object published first with another visibility and page-group mask (one third; a third of those edit the document through the public API in between, and the child publishes the text of the edited document) - versus the same publish alone in a fresh child process (the same test binary): the two sites must be byte-identical; non-trivial = the documents have >= 2 people")
	s.Rapid(t, harness.Share(harness.Pick(160, 5000)), 192, func(rt *rapid.T) {
		c := genCase(rt)
		c.Jobs = []int{1}
		if rapid.IntRange(0, 2).Draw(rt, "sameDoc") == 0 {
			c.SameDoc = true
			c.BeforeVis = rapid.SampledFrom([]string{"show", "hide", "placeholder"}).Draw(rt, "beforeVis")
			// (61 = everything but the places, 62 = everything but the individuals)
			c.BeforeMask = rapid.SampledFrom([]int{63, 63, 61, 61, 1, 2, 62, 47}).Draw(rt, "beforeMask")
			if rapid.IntRange(0, 2).Draw(rt, "edited") == 1 {
				c.Edit = rapid.SampledFrom([]string{"add-name", "add-birth", "delete-person", "add-child", "marry"}).Draw(rt, "edit")
				c.EditA, c.EditB = rapid.IntRange(0, 9).Draw(rt, "editA"), rapid.IntRange(0, 9).Draw(rt, "editB")
			}
		} else {
			c.Before = genDoc(rt, true)
		}
		nt := len(c.Doc.People) >= 2 && (c.SameDoc || len(c.Before.People) >= 2)
		s.Eval(harness.JSON(c), nt, "vis:"+c.Vis, fmt.Sprintf("same-document:%v", c.SameDoc))
		if nt {
			s.MaybeSample(c)
		}
		if fl := historyCheck(c, self, dir); fl != nil && s.Report(c, fl) {
			rt.Fatalf("%s: %s", fl.Sig, fl.Msg)
		}
	})
}

// applyPubEdit edits the live document between two publishes.
func applyPubEdit(doc *gedcom.Document, c pubCase) (ok bool) {
	defer func() {
		if recover() != nil {
			ok = false
		}
	}()
	inds, fams := doc.Individuals(), doc.Families()
	if len(inds) == 0 {
		return false
	}
	x, y := inds[c.EditA%len(inds)], inds[c.EditB%len(inds)]
	switch c.Edit {
	case "add-name":
		x.AddName("Renamed /Afterwards/")
	case "add-birth":
		x.AddBirthDate("7 Jul 1777")
	case "delete-person":
		doc.DeleteNode(x)
	case "add-child":
		if len(fams) == 0 {
			return false
		}
		fams[c.EditB%len(fams)].AddChild(x)
	case "marry":
		doc.AddFamilyWithHusbandAndWife("FNEW", x, y)
	default:
		return false
	}
	return true
}

// historyCheck publishes the case after its history in this process and compares the site
// with the one a fresh child process (the same test binary) produces for the case alone.
func historyCheck(c pubCase, self, dir string) *harness.Failure {
	// the live publishing first: with an edit in the history, what the child has to publish is
	// only known afterwards
	var live *pub.Result
	childCase := pubCase{Doc: c.Doc, Vis: c.Vis, Mask: c.Mask, Jobs: []int{1}}
	if c.SameDoc {
		doc, derr := gedcom.NewDocumentFromString(c.Doc.Text())
		if derr != nil {
			return nil
		}
		if r0 := pub.Publish(doc, pub.FromMask(c.BeforeMask, c.BeforeVis, 1)); r0.Panic != "" || len(r0.Panics) > 0 {
			return nil
		}
		if c.Edit != "" {
			if !applyPubEdit(doc, c) {
				return nil
			}
			childCase.Text = doc.String()
		}
		live = pub.Publish(doc, pub.FromMask(c.Mask, c.Vis, 1))
		if live.Panic != "" || len(live.Panics) > 0 {
			return nil
		}
	}
	out, err := runChild(self, dir, childCase)
	m := regexp.MustCompile(`CHILD-DIGEST (.*)`).FindStringSubmatch(out)
	if m == nil {
		if strings.Contains(out, "CHILD-FAILURE") {
			return nil // the site itself is broken: the other sub-checks own that
		}
		return harness.Failf("child-died", "the child process did not produce a digest (%v):\n%s", err, trunc(out, 2000))
	}
	var alone map[string]string
	_ = json.Unmarshal([]byte(m[1]), &alone)
	var res *pub.Result
	what := "document B published after document A"
	if c.SameDoc {
		what = fmt.Sprintf("the document published (%s, mask %d) after it had been published with other options (%s, mask %d)", c.Vis, c.Mask, c.BeforeVis, c.BeforeMask)
		if c.Edit != "" {
			what += fmt.Sprintf(" and then edited through the public API (%s %d %d)", c.Edit, c.EditA, c.EditB)
		}
		res = live
	} else {
		if c.Before == nil {
			return nil
		}
		if _, f := publish(c.Before, c.Vis, c.Mask, 1, 0); f != nil {
			return nil
		}
		var f *harness.Failure
		if res, f = publish(c.Doc, c.Vis, c.Mask, 1, 0); f != nil {
			return nil
		}
	}
	if ok, why := sameSite(alone, digest(res.Files)); !ok {
		before := ""
		if c.Before != nil {
			before = "A:\n" + c.Before.Text()
		}
		return harness.Failf("depends-on-earlier-publishing", "%s differs from the same publish alone in a fresh process: %s\n%sB:\n%s", what, why, before, c.Doc.Text())
	}
	return nil
}

// ---- race detector --------------------------------------------------------------------------------------

var raceFn = regexp.MustCompile(`(?m)^\s+(?:github\.com/elliotchance/gedcom/v39|main)(\S+?)\(\)\s*$`)

func raceSignature(out string) string {
	i := strings.Index(out, "WARNING: DATA RACE")
	if i < 0 {
		return ""
	}
	rep := out[i:]
	if j := strings.Index(rep, "=================="); j > 0 {
		rep = rep[:j]
	}
	parts := strings.SplitN(rep, "Previous ", 2)
	var fns []string
	for _, p := range parts {
		if m := raceFn.FindStringSubmatch(p); m != nil {
			fns = append(fns, m[1])
		}
	}
	sort.Strings(fns)
	return strings.Join(fns, "|")
}

func TestCheckRace(t *testing.T) {
	bin := os.Getenv("VERIF_RACE_BIN")
	if bin == "" {
		t.Skip("no race binary")
	}
	dir, err := os.MkdirTemp(os.Getenv("VERIF_SCRATCH"), "c19race")
	if err != nil {
		t.Fatal(err)
	}
	defer os.RemoveAll(dir)
	s := harness.NewSub("race-detector",
		"generated documents published with jobs in {2,8,16} and repetitions (a quarter of them into a writer that fails from the k-th file on, so that several workers fail at once) in a -race build of this check (one child process per case, GOMAXPROCS in {1,2,16}); any 'WARNING: DATA RACE' is a failure classified by its two innermost functions; non-trivial = >= 2 people")
	s.Rapid(t, harness.Share(harness.Pick(48, 1500)), 193, func(rt *rapid.T) {
		c := genCase(rt)
		c.Jobs = []int{rapid.SampledFrom([]int{2, 8, 16}).Draw(rt, "jobs")}
		c.Reps = harness.Pick(2, 5)
		if rapid.IntRange(0, 3).Draw(rt, "failing") == 0 && !hangSeen.Load() {
			// several workers see a failing writer at the same time
			c.FailFrom = rapid.IntRange(1, 6).Draw(rt, "failFrom")
		}
		gmp := rapid.SampledFrom([]int{1, 2, 16}).Draw(rt, "gomaxprocs")
		out, err := runChild(bin, dir, c, fmt.Sprintf("GOMAXPROCS=%d", gmp), "GORACE=halt_on_error=1")
		nt := len(c.Doc.People) >= 2
		s.Eval(harness.JSON(c), nt, fmt.Sprintf("gomaxprocs=%d", gmp), fmt.Sprintf("jobs=%d", c.Jobs[0]), fmt.Sprintf("failing-writer=%v", c.FailFrom > 0))
		if nt {
			s.MaybeSample(c)
		}
		var fl *harness.Failure
		switch {
		case strings.Contains(out, "WARNING: DATA RACE"):
			fl = harness.Failf("race:"+raceSignature(out), "data race while publishing (jobs=%d, GOMAXPROCS=%d):\n%s", c.Jobs[0], gmp, trunc(out, 3000))
		case !strings.Contains(out, "CHILD-DIGEST") && !strings.Contains(out, "CHILD-FAILURE"):
			if c.FailFrom > 0 {
				hangSeen.Store(true) // no further failing-writer children in this shard: each would wait for its timeout
			}
			fl = harness.Failf("race-child-died", "the race child did not finish (%v):\n%s", err, trunc(out, 3000))
		}
		if fl != nil && s.Report(c, fl) {
			rt.Fatalf("%s: %s", fl.Sig, fl.Msg)
		}
	})
}

func trunc(s string, n int) string {
	if len(s) > n {
		return s[:n] + "..."
	}
	return s
}

func init() {
	harness.Assume("files are observed through the public FileWriter interface (an in-memory writer that renders each component); the real DirectoryFileWriter is exercised by C14's CLI route",
		"only exact name collisions are judged (not names that differ in letter case only)",
		"link targets are read from href attributes and location.href='...' handlers after decoding entities; '#...', http(s):// and // targets are inert or external",
		"schedules are not controlled by the harness (DESIGN.md 6.21): determinism across jobs is what was observed over the executed runs, race freedom what the race detector observed")
	rp := func(raw json.RawMessage) *harness.Failure {
		var c pubCase
		if err := json.Unmarshal(raw, &c); err != nil {
			return harness.Failf("bad-replay", "%v", err)
		}
		if len(c.Jobs) == 0 {
			c.Jobs = []int{1, 4}
		}
		fls, _ := check(c)
		// a replay reports the first failure that is not a listed finding, else the first
		for _, fl := range fls {
			if !harness.IsKnown(fl.Sig) {
				return fl
			}
		}
		if len(fls) > 0 {
			return fls[0]
		}
		return nil
	}
	for _, n := range []string{"closed-confined-deterministic", "writer-fails-at-kth-file", "race-detector", "crash"} {
		harness.RegisterReplay(n, rp)
	}
	// a history needs a fresh process to compare with: the replay starts one as the run does
	harness.RegisterReplay("history-across-processes", func(raw json.RawMessage) *harness.Failure {
		var c pubCase
		if err := json.Unmarshal(raw, &c); err != nil {
			return harness.Failf("bad-replay", "%v", err)
		}
		dir, err := os.MkdirTemp(os.Getenv("VERIF_SCRATCH"), "c19hist")
		if err != nil {
			return harness.Failf("infra", "%v", err)
		}
		defer os.RemoveAll(dir)
		self, _ := os.Executable()
		return historyCheck(c, self, dir)
	})
}

func TestReplay(t *testing.T) { harness.RunReplay(t) }
