// C15 - queries never crash: parse and evaluate return a value or an error (DESIGN.md 6.15).
package c15

import (
	"bytes"
	"encoding/json"
	"fmt"
	"os"
	"os/exec"
	"path/filepath"
	"reflect"
	"runtime/debug"
	"sort"
	"strings"
	"sync"
	"testing"
	"time"

	"github.com/elliotchance/gedcom/v39"
	"github.com/elliotchance/gedcom/v39/q"
	"pgregory.net/rapid"

	"verif/internal/harness"
)

func TestMain(m *testing.M) { harness.Main(m, "C15") }

type queryCase struct {
	Query string `json:"query"`
	// Doc: empty | tiny | family | two (two documents)
	Doc string `json:"doc"`
}

const tinyDoc = "0 @I1@ INDI\n1 NAME John /Smith/\n1 SEX M\n1 BIRT\n2 DATE 3 Sep 1943\n"
const familyDoc = "0 HEAD\n1 CHAR UTF-8\n0 @I1@ INDI\n1 NAME John /Smith/\n1 SEX M\n1 BIRT\n2 DATE 3 Sep 1843\n2 PLAC Sydney, Australia\n1 DEAT\n2 DATE 1900\n1 _UID EE13561DDB204985BFFDEEBF82A5226C5B2E\n1 FAMS @F1@\n" +
	"0 @I2@ INDI\n1 NAME Jane /Doe/\n1 NAME Janet //\n1 SEX F\n1 SEX M\n1 BIRT\n2 DATE garbage\n1 FAMS @F1@\n0 @I3@ INDI\n1 BAPM\n2 DATE Abt. 1870\n1 FAMC @F1@\n" +
	"0 @F1@ FAM\n1 HUSB @I1@\n1 WIFE @I2@\n1 CHIL @I3@\n1 CHIL @I9@\n1 MARR\n2 DATE 1 Jan 1865\n0 @F2@ FAM\n0 @S1@ SOUR\n1 TITL A source\n0 TRLR\n"

func docs(kind string) []*gedcom.Document {
	mk := func(s string) *gedcom.Document {
		d, err := gedcom.NewDocumentFromString(s)
		if err != nil {
			panic(err)
		}
		return d
	}
	switch kind {
	case "empty":
		return []*gedcom.Document{mk("")}
	case "tiny":
		return []*gedcom.Document{mk(tinyDoc)}
	case "two":
		return []*gedcom.Document{mk(familyDoc), mk(tinyDoc)}
	}
	return []*gedcom.Document{mk(familyDoc)}
}

type errWriter struct{ n int }

func (w *errWriter) Write(p []byte) (int, error) {
	w.n += len(p)
	if w.n > 1<<22 {
		return 0, fmt.Errorf("output too large")
	}
	return len(p), nil
}

type outcome struct {
	parsed, evaluated bool
	formatErrs        int
}

// check runs one query. Panics are recovered and classified; a process-fatal
// error (stack overflow) is found by the driver through the breadcrumb.
func check(c queryCase) (fl *harness.Failure, oc outcome) {
	stage := "parse"
	defer func() {
		if p := recover(); p != nil {
			fl = harness.Failf("panic-"+stage+":"+harness.PanicSig(p, debug.Stack()), "query %q on the %s document: panic while %s: %v", c.Query, c.Doc, stage, p)
		}
	}()
	engine, err := q.NewParser().ParseString(c.Query)
	if (engine == nil) == (err == nil) {
		return harness.Failf("parse-contract", "ParseString(%q) returned engine=%v err=%v", c.Query, engine != nil, err), oc
	}
	if err != nil {
		return nil, oc
	}
	oc.parsed = true
	stage = "evaluate"
	// a fresh document per case: accessors reachable by reflection include mutating ones
	result, err := engine.Evaluate(docs(c.Doc))
	// "evaluating a compiled query against any document": the same compiled query is evaluated
	// again, on fresh documents of the same kind and of another kind, whatever the first
	// evaluation returned. Each call returns a value or an error.
	stage = "evaluate-again"
	for _, other := range []string{c.Doc, map[string]string{"empty": "family", "tiny": "two", "family": "empty", "two": "tiny"}[c.Doc]} {
		if v, e := engine.Evaluate(docs(other)); v != nil && e != nil {
			return harness.Failf("evaluate-contract", "the second evaluation of %q returned both a value and an error (%v)", c.Query, e), oc
		}
	}
	stage = "evaluate"
	if err != nil {
		return nil, oc
	}
	oc.evaluated = true
	for _, f := range []struct {
		name string
		mk   func(w *errWriter) q.Formatter
	}{
		{"json", func(w *errWriter) q.Formatter { return &q.JSONFormatter{Writer: w} }},
		{"pretty-json", func(w *errWriter) q.Formatter { return &q.PrettyJSONFormatter{Writer: w} }},
		{"csv", func(w *errWriter) q.Formatter { return &q.CSVFormatter{Writer: w} }},
		{"gedcom", func(w *errWriter) q.Formatter { return &q.GEDCOMFormatter{Writer: w} }},
		{"html", func(w *errWriter) q.Formatter { return &q.HTMLFormatter{Writer: w} }},
	} {
		stage = "format-" + f.name
		if err := f.mk(&errWriter{}).Write(result); err != nil {
			oc.formatErrs++
		}
	}
	return nil, oc
}

func runOne(s *harness.Sub, c queryCase, crumb bool) {
	if crumb {
		s.Crumb(c)
	}
	stop := s.Watchdog(60*time.Second, c, harness.Failf("hang", "query %q on the %s document did not finish within 60 s", c.Query, c.Doc))
	fl, oc := check(c)
	stop()
	cls := "parse-error"
	switch {
	case oc.evaluated:
		cls = "value"
	case oc.parsed:
		cls = "evaluation-error"
	}
	s.Eval([]byte(c.Doc+"|"+c.Query), oc.parsed, "outcome:"+cls, "doc:"+c.Doc)
	if oc.evaluated && len(c.Query) > 8 {
		s.MaybeSample(c)
	}
	if fl != nil {
		s.Report(c, fl) // keep going: a run collects every distinct signature
	}
}

// ---- (a) exhaustive token sequences ----------------------------------------------------

var alphabet = []string{".Individuals", ".Families", ".Name", ".String", ".Nodes", ".Age", ".Warnings", ".", ".Nope", ".Document", ".Children", ".Husband",
	"Length", "First", "Last", "Only", "Combine", "NodesWithTagPath", "MergeDocumentsAndIndividuals", "?", "is", "are", "X", "x", "Document1", "Document2",
	"1", "0", `"DATE"`, "|", ";", "(", ")", "{", "}", ":", ",", "=", "!", ">", "<"}

func TestCheckTokenSequences(t *testing.T) {
	maxLen := harness.Pick(3, 4)
	s := harness.NewSub("token-sequences-exhaustive",
		fmt.Sprintf("every sequence of 1..%d tokens over a %d-token alphabet (accessors incl. unknown and the bare '.', every built-in function name, is/are, a variable, Document1/2, numbers, a string, every punctuation and operator token), evaluated on the family document (2 documents for sequences that mention Document2) and written through all five formatters; distinct by construction; non-trivial = the sequence parses", maxLen, len(alphabet)))
	s.SetExhaustive(true)
	shard, ns := harness.Shard(), harness.NShards()
	idx := 0
	var rec func(prefix []string)
	rec = func(prefix []string) {
		if len(prefix) > 0 {
			idx++
			if idx%ns == shard {
				qy := strings.Join(prefix, " ")
				doc := "family"
				if strings.Contains(qy, "Document2") || strings.Contains(qy, "Merge") {
					doc = "two"
				}
				runOne(s, queryCase{Query: qy, Doc: doc}, true)
			}
		}
		if len(prefix) == maxLen {
			return
		}
		for _, a := range alphabet {
			rec(append(prefix, a))
		}
	}
	rec(nil)
}

// ---- (b) grammar-generated programs over reflected accessors -------------------------------

var reflected []string

func collectAccessors() []string {
	seen := map[string]bool{}
	var queue []reflect.Type
	push := func(t reflect.Type) {
		for t.Kind() == reflect.Slice || t.Kind() == reflect.Map {
			t = t.Elem()
		}
		if t.Kind() == reflect.Struct {
			t = reflect.PtrTo(t)
		}
		if t.Kind() != reflect.Ptr || !strings.Contains(t.String(), "gedcom.") {
			return
		}
		if !seen["T:"+t.String()] {
			seen["T:"+t.String()] = true
			queue = append(queue, t)
		}
	}
	push(reflect.TypeOf(&gedcom.Document{}))
	push(reflect.TypeOf(&gedcom.NameNode{}))
	push(reflect.TypeOf(&gedcom.DateNode{}))
	push(reflect.TypeOf(&gedcom.PlaceNode{}))
	names := map[string]bool{}
	for len(queue) > 0 {
		t := queue[0]
		queue = queue[1:]
		for i := 0; i < t.NumMethod(); i++ {
			m := t.Method(i)
			names[m.Name] = true
			if m.Type.NumOut() > 0 {
				push(m.Type.Out(0))
			}
		}
		if t.Elem().Kind() == reflect.Struct {
			for i := 0; i < t.Elem().NumField(); i++ {
				f := t.Elem().Field(i)
				if f.PkgPath == "" {
					names[f.Name] = true
				}
			}
		}
	}
	var out []string
	for n := range names {
		out = append(out, "."+n)
	}
	sort.Strings(out)
	return out
}

func genExpr(t *rapid.T, depth int) string {
	k := rapid.IntRange(0, 13).Draw(t, "exprKind")
	if depth <= 0 && k > 5 {
		k = k % 6
	}
	sub := func() string { return genPipeline(t, depth-1) }
	switch k {
	case 0, 1, 2:
		return rapid.SampledFrom(reflected).Draw(t, "accessor")
	case 3:
		return rapid.SampledFrom([]string{".Individuals", ".Families", ".Name", ".String", ".Births", ".Dates", ".Nodes", ".Children", ".Husband", ".Individual", ".Spouses", ".Warnings", ".Sources", ".Places"}).Draw(t, "common")
	case 4:
		return rapid.SampledFrom([]string{"1", "0", "3", "100", `"BIRT"`, `"x"`, `""`, `"-1"`, `"1.5"`, "99999999999999999999"}).Draw(t, "const")
	case 5:
		return rapid.SampledFrom([]string{"Length", "?", "X", "Y", "Document1", "Document2", "First", "Only", "Combine", "NodesWithTagPath"}).Draw(t, "bare")
	case 6:
		return fmt.Sprintf("%s(%s)", rapid.SampledFrom([]string{"First", "Last"}).Draw(t, "fl"), sub())
	case 7:
		return fmt.Sprintf("Only(%s)", sub())
	case 8:
		n := rapid.IntRange(0, 3).Draw(t, "nargs")
		var args []string
		for i := 0; i < n; i++ {
			args = append(args, sub())
		}
		return fmt.Sprintf("%s(%s)", rapid.SampledFrom([]string{"Combine", "NodesWithTagPath", "MergeDocumentsAndIndividuals", "Length", "First", "Only"}).Draw(t, "fn"), strings.Join(args, ", "))
	case 9:
		n := rapid.IntRange(0, 3).Draw(t, "nkeys")
		var kv []string
		for i := 0; i < n; i++ {
			kv = append(kv, fmt.Sprintf("k%d: %s", i, sub()))
		}
		return "{" + strings.Join(kv, ", ") + "}"
	case 10, 11:
		return fmt.Sprintf("%s %s %s", genExpr(t, depth-1), rapid.SampledFrom([]string{"=", "!=", ">", ">=", "<", "<="}).Draw(t, "op"), genExpr(t, depth-1))
	default:
		return "?"
	}
}

// typedChain follows the types: every accessor is a zero-argument method (or a
// field) of the current element type, so most of these programs evaluate to a
// value and reach the formatters.
func typedChain(t *rapid.T) string {
	cur := reflect.TypeOf(&gedcom.Document{})
	var st []string
	n := rapid.IntRange(1, 5).Draw(t, "chainLen")
	for i := 0; i < n; i++ {
		for cur.Kind() == reflect.Slice {
			cur = cur.Elem()
		}
		if cur.Kind() == reflect.Struct {
			cur = reflect.PtrTo(cur)
		}
		if cur.Kind() != reflect.Ptr && cur.Kind() != reflect.Interface {
			break
		}
		type cand struct {
			name string
			out  reflect.Type
		}
		var cands []cand
		for m := 0; m < cur.NumMethod(); m++ {
			mt := cur.Method(m)
			ft := mt.Type
			nin := ft.NumIn()
			if cur.Kind() != reflect.Interface {
				nin--
			}
			if nin == 0 && ft.NumOut() >= 1 && !strings.HasPrefix(mt.Name, "Add") && !strings.HasPrefix(mt.Name, "Set") && !strings.HasPrefix(mt.Name, "Delete") {
				cands = append(cands, cand{mt.Name, ft.Out(0)})
			}
		}
		if len(cands) == 0 {
			break
		}
		c := cands[rapid.IntRange(0, len(cands)-1).Draw(t, "method")]
		st = append(st, "."+c.name)
		cur = c.out
		if rapid.IntRange(0, 5).Draw(t, "fn") == 0 {
			st = append(st, rapid.SampledFrom([]string{"First(2)", "Last(1)", "Length", "?", `Only(.String != "")`, "{}", `{v: .String}`}).Draw(t, "stagefn"))
			if st[len(st)-1] == "Length" || st[len(st)-1] == "?" || strings.HasPrefix(st[len(st)-1], "{") {
				break
			}
		}
	}
	if len(st) == 0 {
		return ".Individuals"
	}
	return strings.Join(st, " | ")
}

func genPipeline(t *rapid.T, depth int) string {
	if rapid.IntRange(0, 2).Draw(t, "typed") == 0 {
		return typedChain(t)
	}
	n := rapid.IntRange(1, 4).Draw(t, "stages")
	var st []string
	for i := 0; i < n; i++ {
		st = append(st, genExpr(t, depth))
	}
	return strings.Join(st, " | ")
}

// genRecursive: programs whose variables refer to themselves, directly or through each other,
// from inside a function argument, an object or an operator, over lists that do not shrink
// with the depth of the recursion ("self-referential variables" of the statement; the engine
// must stop them with an error however the error travels back through the enclosing stages).
func genRecursive(t *rapid.T) string {
	v := rapid.SampledFrom([]string{"X", "Y", "Names"}).Draw(t, "rv")
	w := rapid.SampledFrom([]string{"Y", "Z", "Other"}).Draw(t, "rw")
	root := rapid.SampledFrom([]string{"Document1", "Document2", "Document1 | .Nodes", "Document1 | .Individuals", "Document1 | .Families", "Document1 | .Warnings",
		".Nodes", ".Individuals", ".Families", ".Warnings", ".Individuals | .Name", ".Nodes | .Nodes", "Document1 | .Sources", ".Places"}).Draw(t, "root")
	ref := v
	indirect := rapid.IntRange(0, 2).Draw(t, "indirect") == 0
	if indirect {
		ref = w
	}
	use := rapid.SampledFrom([]string{"Only(%s)", "Only(%s = 1)", "Only(.Pointer = %s)", "First(%s)", "Last(%s)", "Combine(%s, %s)", "NodesWithTagPath(%s)", "{a: %s}", "{a: %s, b: %s}",
		"%s", "%s | Length", ". = %s", "%s != %s", "Only(%s) | Only(%s)", "MergeDocumentsAndIndividuals(%s, %s)", "Only({a: %s})", "Only(First(%s))"}).Draw(t, "use")
	// (a third of the time every reference is spelled in another case than the definition it means:
	// "X is x", "Names are .Individuals | Only(NAMES)" - no such variable, unless names are matched
	// without regard to case, and then it is a variable that refers to itself like any other)
	spell := func(name string) string { return name }
	switch rapid.IntRange(0, 5).Draw(t, "refCase") {
	case 1:
		spell = strings.ToLower
	case 4:
		spell = func(name string) string {
			if u := strings.ToUpper(name); u != name {
				return u
			}
			return strings.ToLower(name)
		}
	}
	use = strings.ReplaceAll(use, "%s", spell(ref))
	prog := fmt.Sprintf("%s %s %s | %s", v, rapid.SampledFrom([]string{"is", "are"}).Draw(t, "isare"), root, use)
	if indirect {
		bv := spell(v)
		prog += fmt.Sprintf("; %s is %s", w, rapid.SampledFrom([]string{bv, bv + " | Length", "Only(" + bv + ")", root + " | " + bv}).Draw(t, "back"))
	}
	switch rapid.IntRange(0, 3).Draw(t, "tail") {
	case 0:
		prog += "; " + v
	case 1:
		prog += "; " + root + " | " + v
	case 2:
		prog += "; .Individuals | .Name | .String" // the variable is never used
	}
	return prog
}

// genDeep: well-formed programs that are short but deeply nested (function calls in function
// arguments, objects in object values, both alternating): "of bounded depth" is a bound of the
// generator, not of the language, and the time to parse must not explode with the depth.
func genDeep(t *rapid.T) string {
	depth := rapid.SampledFrom([]int{12, 18, 24, 32, 48, 80}).Draw(t, "nesting")
	inner := rapid.SampledFrom([]string{"1", ".Individuals | Length", ".Name", "\"x\"", ".", "?"}).Draw(t, "inner")
	style := rapid.IntRange(0, 3).Draw(t, "style")
	e := inner
	for i := 0; i < depth; i++ {
		switch {
		case style == 0 || (style == 2 && i%2 == 0):
			e = rapid.SampledFrom([]string{"First", "Last", "Only", "Combine", "Length", "NodesWithTagPath"}).Draw(t, "fn") + "(" + e + ")"
		case style == 1 || style == 2:
			e = "{a: " + e + "}"
		default:
			e = "{a: 1, b: First(" + e + "), c: .Name}"
		}
	}
	return rapid.SampledFrom([]string{"", ".Individuals | ", "X is .Individuals; X | "}).Draw(t, "head") + e
}

func genProgram(t *rapid.T) string {
	switch rapid.IntRange(0, 39).Draw(t, "special") {
	case 11, 12, 13, 14:
		return genRecursive(t)
	case 21:
		return genDeep(t)
	}
	n := rapid.IntRange(1, 3).Draw(t, "statements")
	var st []string
	for i := 0; i < n; i++ {
		p := genPipeline(t, rapid.IntRange(0, 3).Draw(t, "depth"))
		if i < n-1 || rapid.IntRange(0, 3).Draw(t, "named") == 0 {
			p = fmt.Sprintf("%s %s %s", rapid.SampledFrom([]string{"X", "Y", "Names"}).Draw(t, "var"), rapid.SampledFrom([]string{"is", "are"}).Draw(t, "isare"), p)
		}
		st = append(st, p)
	}
	return strings.Join(st, "; ")
}

func TestCheckGrammar(t *testing.T) {
	reflected = collectAccessors()
	s := harness.NewSub("grammar-programs",
		fmt.Sprintf("well-formed programs from the documented grammar (1..3 statements, pipelines of 1..4 stages, nesting depth <= 4): accessors drawn from the %d method and field names reachable by reflection from *Document (so arity-mismatched, mutating and no-result methods are included), the built-in functions with 0..3 arbitrary arguments, objects, variables incl. self-referential and undefined ones (a tenth of the programs are built around a variable that refers to itself, directly or through another one, from inside a function argument, object or operator over a list rooted at the document), all six operators, hostile constants; one program in forty is short but nested 12 to 80 levels deep (calls in arguments, objects in values); on the empty, tiny and family documents and with two documents; non-trivial = the program parses", len(reflected)))
	s.Rapid(t, harness.Share(harness.Pick(300000, 4000000)), 150, func(rt *rapid.T) {
		c := queryCase{Query: genProgram(rt), Doc: rapid.SampledFrom([]string{"empty", "tiny", "family", "family", "two"}).Draw(rt, "doc")}
		runOne(s, c, true)
	})
}

// ---- (b2) several evaluations at the same time, each on documents of its own --------------

type parallelCase struct {
	Queries []queryCase `json:"queries"`
}

func genTagPathQuery(t *rapid.T) string {
	tag := func() string {
		switch rapid.IntRange(0, 3).Draw(t, "tagkind") {
		case 0:
			return rapid.SampledFrom([]string{"BIRT", "DATE", "NAME", "PLAC", "DEAT", "MARR"}).Draw(t, "known")
		case 1:
			return fmt.Sprintf("_Q%d", rapid.IntRange(0, 1<<30).Draw(t, "custom"))
		}
		return fmt.Sprintf("%s%d", rapid.SampledFrom([]string{"_", "X", "ZZ", "_UID"}).Draw(t, "stem"), rapid.IntRange(0, 1<<30).Draw(t, "n"))
	}
	var args []string
	for k := rapid.IntRange(1, 3).Draw(t, "nargs"); k > 0; k-- {
		args = append(args, fmt.Sprintf("%q", tag()))
	}
	return rapid.SampledFrom([]string{".Individuals | ", ".Families | ", ".Nodes | ", ""}).Draw(t, "root") + "NodesWithTagPath(" + strings.Join(args, ", ") + ")" +
		rapid.SampledFrom([]string{"", " | Length", " | .String", " | First(1)"}).Draw(t, "tail")
}

// checkParallel: every caller evaluates its own compiled query on documents nobody else
// holds, so each call is an evaluation like any other: a value or an error, no panic. (A
// fatal error of the runtime ends the process; the driver names the case by its breadcrumb.)
func checkParallel(c parallelCase) *harness.Failure {
	fails := make([]*harness.Failure, len(c.Queries))
	start := make(chan struct{})
	var wg sync.WaitGroup
	for k := range c.Queries {
		wg.Add(1)
		go func(k int) {
			defer wg.Done()
			<-start
			fails[k], _ = check(c.Queries[k])
		}(k)
	}
	close(start)
	wg.Wait()
	for k, f := range fails {
		if f != nil {
			return harness.Failf("parallel:"+f.Sig, "with %d evaluations running at the same time, each on its own documents: query %d: %s", len(c.Queries), k, f.Msg)
		}
	}
	return nil
}

func TestCheckParallel(t *testing.T) {
	reflected = collectAccessors()
	s := harness.NewSub("parallel-evaluations",
		"4..8 programs (half of them NodesWithTagPath calls over 1..3 known, custom and never-seen tag names, half from the grammar of grammar-programs) compiled and evaluated at the same time by as many goroutines, each on freshly decoded documents of its own, each result then formatted five ways; oracle: every call is an evaluation like any other - compiled query or syntax error, value or error, no panic, and the process survives (a fatal error of the runtime is attributed through the breadcrumb); non-trivial = at least two of the programs parse")
	s.Rapid(t, harness.Share(harness.Pick(24000, 600000)), 151, func(rt *rapid.T) {
		var c parallelCase
		for k := rapid.IntRange(4, 8).Draw(rt, "n"); k > 0; k-- {
			qs := ""
			if rapid.Bool().Draw(rt, "tagpath") {
				qs = genTagPathQuery(rt)
			} else {
				qs = genProgram(rt)
			}
			c.Queries = append(c.Queries, queryCase{Query: qs, Doc: rapid.SampledFrom([]string{"empty", "tiny", "family", "family", "two"}).Draw(rt, "doc")})
		}
		s.Crumb(c)
		stop := s.Watchdog(120*time.Second, c, harness.Failf("hang", "%d evaluations at the same time did not finish within 120 s", len(c.Queries)))
		fl := checkParallel(c)
		stop()
		parsed := 0
		for _, qc := range c.Queries {
			if e, err := q.NewParser().ParseString(qc.Query); err == nil && e != nil {
				parsed++
			}
		}
		s.Eval(harness.JSON(c), parsed >= 2, fmt.Sprintf("programs:%d", len(c.Queries)))
		if parsed >= 2 {
			s.MaybeSample(c)
		}
		if fl != nil && s.Report(c, fl) {
			rt.Fatalf("%s: %s", fl.Sig, fl.Msg)
		}
	})
}

// ---- (c) mutated documented examples, (d) random bytes ------------------------------------

var examples = []string{
	`.Individuals | .Name | .String`,
	`.Individuals | NodesWithTagPath("BIRT", "DATE")`,
	`Births are .Individuals | NodesWithTagPath("BIRT", "DATE") | {type: "birth", date: .String}; Deaths are .Individuals | NodesWithTagPath("DEAT", "DATE") | {type: "death", date: .String}; Combine(Births, Deaths)`,
	`.Individuals | Only(.Age > 100)`,
	`.Individuals | ?`,
	`Indi is .Individuals; Names are Indi | .Name; Names | .String`,
	`.Individuals | { name: .Name | .String, born: .Birth | .String }`,
	`.Individuals | First(3) | { name: .Name | .String, born: .Birth | .String, died: .Death | .String}`,
	`.Individuals | .Name | Only(.GivenName = "John") | .String`,
	`MergeDocumentsAndIndividuals(Document1, Document2) | .Individuals | Length`,
	`.Individuals | Last(2) | .Name | .String`,
}

func TestCheckMutatedExamples(t *testing.T) {
	s := harness.NewSub("mutated-examples-and-bytes",
		"the documented example queries with 1..4 token insert/delete/swap/duplicate mutations, and random byte strings up to 256 bytes (the tokenizer is quadratic in unmatched input, so size is bounded); on all four document configurations; non-trivial = parses")
	s.Rapid(t, harness.Share(harness.Pick(200000, 3000000)), 151, func(rt *rapid.T) {
		var qy string
		if rapid.IntRange(0, 4).Draw(rt, "bytes") == 0 {
			qy = string(rapid.SliceOfN(rapid.SampledFrom([]byte(`.|;?(){}:,=!<>"aX1 _`+"\x00\xff\n")), 0, 256).Draw(rt, "raw"))
		} else {
			toks := q.NewTokenizer().TokenizeString(rapid.SampledFrom(examples).Draw(rt, "example")).Tokens
			var words []string
			for _, tk := range toks {
				words = append(words, tk.Value)
			}
			n := rapid.IntRange(0, 2).Draw(rt, "nmut")
			for i := 0; i < n && len(words) > 0; i++ {
				p := rapid.IntRange(0, len(words)-1).Draw(rt, "pos")
				switch rapid.IntRange(0, 5).Draw(rt, "op") {
				case 4, 5:
					// same-kind replacement keeps the syntax intact
					switch {
					case strings.HasPrefix(words[p], "."):
						words[p] = rapid.SampledFrom([]string{".Name", ".String", ".Families", ".Nodes", ".Age", ".Birth", ".Nope", ".IsLiving", ".Children", ".Spouses"}).Draw(rt, "acc")
					case strings.HasPrefix(words[p], `"`) || (words[p][0] >= '0' && words[p][0] <= '9'):
						words[p] = rapid.SampledFrom([]string{"0", "1", "7", `"NAME"`, `""`, `"-3"`, `"John"`}).Draw(rt, "const")
					case words[p] == ">" || words[p] == "=" || words[p] == "<":
						words[p] = rapid.SampledFrom([]string{">", "<", "="}).Draw(rt, "op2")
					}
				case 0:
					words = append(words[:p], words[p+1:]...)
				case 1:
					words = append(words[:p], append([]string{rapid.SampledFrom(alphabet).Draw(rt, "ins")}, words[p:]...)...)
				case 2:
					o := rapid.IntRange(0, len(words)-1).Draw(rt, "other")
					words[p], words[o] = words[o], words[p]
				default:
					words = append(words[:p], append([]string{words[p]}, words[p:]...)...)
				}
			}
			qy = strings.Join(words, " ")
		}
		runOne(s, queryCase{Query: qy, Doc: rapid.SampledFrom([]string{"empty", "tiny", "family", "two"}).Draw(rt, "doc")}, true)
	})
}

// ---- the command line ---------------------------------------------------------------------

func TestCheckCLI(t *testing.T) {
	cli := os.Getenv("VERIF_CLI")
	if cli == "" {
		t.Skip("no CLI binary")
	}
	reflected = collectAccessors()
	dir, err := os.MkdirTemp(os.Getenv("VERIF_SCRATCH"), "c15cli")
	if err != nil {
		t.Fatal(err)
	}
	defer os.RemoveAll(dir)
	in, in2 := filepath.Join(dir, "a.ged"), filepath.Join(dir, "b.ged")
	_ = os.WriteFile(in, []byte(familyDoc), 0o644)
	_ = os.WriteFile(in2, []byte(tinyDoc), 0o644)
	s := harness.NewSub("cli-query",
		"a sample of the generated programs through the built 'gedcom query' binary with a random -format: exit 0, or exit 1 with an ERROR: line; no panic / fatal error / exit status 2; non-trivial = exit 0")
	s.Rapid(t, harness.Share(harness.Pick(6400, 100000)), 152, func(rt *rapid.T) {
		qy := genProgram(rt)
		format := rapid.SampledFrom([]string{"json", "pretty-json", "csv", "gedcom", "html"}).Draw(rt, "format")
		cmd := exec.Command(cli, "query", "-gedcom", in, "-gedcom", in2, "-format", format, qy)
		var out bytes.Buffer
		cmd.Stdout, cmd.Stderr = &errWriter{}, &out
		err := cmd.Run()
		c := queryCase{Query: qy, Doc: "two:" + format}
		s.Eval([]byte(format+"|"+qy), err == nil, "format:"+format)
		if err == nil && len(qy) > 10 {
			s.MaybeSample(c)
		}
		o := out.String()
		var fl *harness.Failure
		if ee, ok := err.(*exec.ExitError); ok {
			switch {
			case strings.Contains(o, "\npanic: ") || strings.HasPrefix(o, "panic: ") || strings.Contains(o, "fatal error: ") || ee.ExitCode() == 2 || ee.ExitCode() < 0:
				fl = harness.Failf("cli-crash", "gedcom query -format %s %q crashed (%v):\n%s", format, qy, err, trunc(o, 2000))
			case ee.ExitCode() != 1 || !strings.Contains(o, "ERROR:"):
				fl = harness.Failf("cli-bad-exit", "gedcom query -format %s %q ended with %v and no ERROR: line:\n%s", format, qy, err, trunc(o, 1000))
			}
		}
		if fl != nil {
			s.Report(c, fl)
		}
	})
}

func trunc(s string, n int) string {
	if len(s) > n {
		return s[:n] + "..."
	}
	return s
}

// FuzzQuery is the coverage-guided byte-level target of the thorough tier.
func FuzzQuery(f *testing.F) {
	for _, e := range examples {
		f.Add(e, uint8(2))
	}
	for _, e := range []string{"X X X", "X is X", "X is Y; Y is X; X", ".", "..", "{", "First(", `First("-1")`, ". | . | .", "? | ?"} {
		f.Add(e, uint8(1))
	}
	kinds := []string{"empty", "tiny", "family", "two"}
	f.Fuzz(func(t *testing.T, qy string, d uint8) {
		if len(qy) > 256 {
			return
		}
		c := queryCase{Query: qy, Doc: kinds[int(d)%4]}
		if fl, _ := check(c); fl != nil && harness.FuzzFail("fuzz", c, fl) {
			t.Fatalf("%s: %s", fl.Sig, fl.Msg)
		}
	})
}

func init() {
	harness.Assume("a fresh document per evaluation (zero-argument exported methods reachable through reflection include mutating ones)",
		"a panic that the engine itself recovers and returns as an error is an error",
		"query strings are bounded to 256 bytes in the random-bytes class because the tokenizer is quadratic on unmatched input",
		"stack overflow and other fatal errors cannot be recovered: they are found by the driver through the breadcrumb of the dying child")
	rp := func(raw json.RawMessage) *harness.Failure {
		var c queryCase
		if err := json.Unmarshal(raw, &c); err != nil {
			return harness.Failf("bad-replay", "%v", err)
		}
		if i := strings.Index(c.Doc, ":"); i > 0 {
			c.Doc = c.Doc[:i]
		}
		fl, _ := check(c)
		return fl
	}
	harness.RegisterReplay("parallel-evaluations", func(raw json.RawMessage) *harness.Failure {
		var c parallelCase
		if err := json.Unmarshal(raw, &c); err != nil {
			return harness.Failf("bad-replay", "%v", err)
		}
		reflected = collectAccessors()
		// a replay starts in a new process, where every custom tag is new again; the event
		// needs two callers to meet, so the case is tried a number of times
		for i := 0; i < 200; i++ {
			if f := checkParallel(c); f != nil {
				return f
			}
		}
		return nil
	})
	for _, n := range []string{"token-sequences-exhaustive", "grammar-programs", "mutated-examples-and-bytes", "cli-query", "fuzz", "crash"} {
		harness.RegisterReplay(n, rp)
	}
}

func TestReplay(t *testing.T) { harness.RunReplay(t) }
