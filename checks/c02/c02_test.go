// C02 - decoding attaches every line exactly where its level says (DESIGN.md 6.2).
package c02

import (
	"encoding/json"
	"fmt"
	"io"
	"os"
	"strings"
	"testing"
	"testing/iotest"

	"github.com/elliotchance/gedcom/v39"
	"pgregory.net/rapid"

	"verif/internal/gen"
	"verif/internal/harness"
	"verif/internal/ref"
)

func TestMain(m *testing.M) { harness.Main(m, "C02") }

type treeCase struct {
	Text        *gen.TextBP `json:"text"`
	MultiLine   bool        `json:"multiline"`
	InvalidInds bool        `json:"invalid_indents"`
}

type decoded struct {
	doc      *gedcom.Document
	err      error
	panicked bool
	panicVal string
}

func decode(data string, ml, ii bool) (d decoded) {
	defer func() {
		if p := recover(); p != nil {
			d.panicked = true
			d.panicVal = fmt.Sprint(p)
		}
	}()
	// how the bytes arrive is not part of the byte stream: a plain reader, one byte at a time,
	// half of what is asked for, or the last bytes together with io.EOF (chosen by the input)
	var r io.Reader = strings.NewReader(data)
	switch len(data) % 4 {
	case 1:
		r = iotest.OneByteReader(r)
	case 2:
		r = iotest.HalfReader(r)
	case 3:
		r = iotest.DataErrReader(r)
	}
	dec := gedcom.NewDecoder(r)
	dec.AllowMultiLine = ml
	dec.AllowInvalidIndents = ii
	d.doc, d.err = dec.Decode()
	return
}

// toRef converts a decoded document into the reference node shape.
func toRef(nodes gedcom.Nodes) []*ref.Node {
	var out []*ref.Node
	for _, n := range nodes {
		out = append(out, &ref.Node{Tag: n.Tag().Tag(), Value: n.Value(), Pointer: n.Pointer(), Kids: toRef(n.Nodes())})
	}
	return out
}

func trunc(s string) string {
	if len(s) > 400 {
		return s[:400] + "..."
	}
	return s
}

type stats struct {
	nodes     int
	nontriv   bool
	classes   []string
	unmodeled bool
}

func check(c treeCase) (*harness.Failure, stats) {
	var st stats
	data := c.Text.Bytes()
	mutated := len(c.Text.Muts) > 0
	model := ref.Decode(data, ref.Options{AllowMultiLine: c.MultiLine, AllowInvalidIndents: c.InvalidInds})
	got := decode(data, c.MultiLine, c.InvalidInds)
	accepted := !got.panicked && got.err == nil && got.doc != nil

	switch model.Outcome {
	case ref.OutTree:
		if !accepted {
			if mutated {
				st.classes = append(st.classes, "unmodelled:decoder-rejects-what-model-accepts")
				st.unmodeled = true
				if os.Getenv("VERIF_DEBUG") != "" {
					fmt.Printf("DEBUG rejects: err=%v panic=%v data=%q\n", got.err, got.panicVal, trunc(data))
				}
				return nil, st
			}
			why := fmt.Sprint(got.err)
			if got.panicked {
				why = "panic: " + got.panicVal
			}
			return harness.Failf("rejects-valid-input", "decoder rejects input that is valid by construction (%s): %q", why, trunc(data)), st
		}
	case ref.OutError, ref.OutPanic:
		if accepted {
			if mutated {
				st.classes = append(st.classes, "unmodelled:decoder-accepts-what-model-rejects")
				st.unmodeled = true
			} else if model.Outcome == ref.OutError {
				return harness.Failf("accepts-invalid-input", "decoder accepts input whose line %q is not a GEDCOM line and cannot be a continuation: %q", model.BadLine, trunc(data)), st
			} else {
				st.classes = append(st.classes, "unmodelled:over-deep-accepted")
				st.unmodeled = true
			}
		} else {
			st.classes = append(st.classes, "rejected-as-expected")
			return nil, st
		}
	default:
		st.classes = append(st.classes, "unmodelled:outside-strict-grammar")
		st.unmodeled = true
	}
	if !accepted {
		return nil, st
	}

	// --- the decoded tree is the tree the grammar dictates -----------------------
	gotForest := toRef(got.doc.Nodes())
	st.nodes = ref.Count(gotForest)
	if model.Outcome == ref.OutTree {
		if got.doc.HasBOM != model.BOM {
			return harness.Failf("bom-flag", "HasBOM=%v, input has BOM=%v", got.doc.HasBOM, model.BOM), st
		}
		if a, b := ref.Dump(gotForest), ref.Dump(model.Roots); a != b {
			return harness.Failf("tree-differs-from-grammar", "decoded tree differs from the tree dictated by the line grammar.\ninput: %q\ndecoded:\n%s\nexpected:\n%s", trunc(data), trunc(a), trunc(b)), st
		}
		// classes
		if model.MaxDedent >= 2 {
			st.classes = append(st.classes, "dedent>=2")
		}
		if len(model.Terminators) >= 2 {
			st.classes = append(st.classes, "mixed-terminators")
		}
		if model.Blank > 1 {
			st.classes = append(st.classes, "blank-lines")
		}
		if model.BOM {
			st.classes = append(st.classes, "bom")
		}
		if model.Continuations > 0 {
			st.classes = append(st.classes, "continuation")
		}
		if model.Clamps > 0 {
			st.classes = append(st.classes, "clamp")
		}
		st.nontriv = st.nodes >= 3 && (model.MaxDedent >= 2 || len(model.Terminators) >= 2 || model.Blank > 1 || model.BOM || model.Continuations > 0 || model.Clamps > 0)
	}

	// --- normal form -----------------------------------------------------------
	s1 := got.doc.String()
	again := decode(s1, c.MultiLine, c.InvalidInds)
	if again.panicked || again.err != nil {
		why := fmt.Sprint(again.err)
		if again.panicked {
			why = "panic: " + again.panicVal
		}
		return harness.Failf("normal-form-rejected", "re-encoded document is not accepted under the same options (%s).\ninput: %q\nre-encoded: %q", why, trunc(data), trunc(s1)), st
	}
	againForest := toRef(again.doc.Nodes())
	if a, b := ref.Dump(againForest), ref.Dump(gotForest); a != b {
		return harness.Failf("normal-form-tree-differs", "re-encoded document decodes to a different tree.\ninput: %q\nre-encoded: %q\nfirst:\n%s\nsecond:\n%s", trunc(data), trunc(s1), trunc(b), trunc(a)), st
	}
	if s2 := again.doc.String(); s2 != s1 {
		return harness.Failf("normal-form-not-fixpoint", "re-encoding the decoded normal form gives different bytes: %q vs %q", trunc(s1), trunc(s2)), st
	}
	// the encoder's output is inside the documented grammar and means the same tree
	m2 := ref.Decode(s1, ref.Options{AllowMultiLine: c.MultiLine, AllowInvalidIndents: c.InvalidInds})
	switch m2.Outcome {
	case ref.OutTree:
		if a, b := ref.Dump(m2.Roots), ref.Dump(gotForest); a != b {
			return harness.Failf("normal-form-outside-grammar", "the encoder's text means a different tree under the documented grammar.\nre-encoded: %q\ndocument:\n%s\ngrammar:\n%s", trunc(s1), trunc(b), trunc(a)), st
		}
	case ref.OutUnmodelled:
		st.classes = append(st.classes, "unmodelled:normal-form")
	default:
		return harness.Failf("normal-form-outside-grammar", "the encoder's text is not accepted by the documented grammar (line %q): %q", m2.BadLine, trunc(s1)), st
	}
	return nil, st
}

func run(t *testing.T, name, rule string, salt, n int, opts gen.TextOpts) {
	s := harness.NewSub(name, rule)
	s.Rapid(t, harness.Share(n), salt, func(rt *rapid.T) {
		tb := gen.Text(opts).Draw(rt, "text")
		for _, ml := range []bool{false, true} {
			for _, ii := range []bool{false, true} {
				c := treeCase{Text: tb, MultiLine: ml, InvalidInds: ii}
				f, st := check(c)
				cls := append(st.classes, fmt.Sprintf("opts:ml=%v,ii=%v", ml, ii))
				s.Eval(harness.JSON(c), st.nontriv, cls...)
				if st.nontriv {
					s.MaybeSample(c)
				}
				if f != nil && s.Report(c, f) {
					rt.Fatalf("%s", f.Msg)
				}
			}
		}
	})
}

func TestCheckStructured(t *testing.T) {
	run(t, "structured-strict",
		"generated GEDCOM text: random level walks (descend, stay, dedent by any amount, new root), per-line terminators from {LF,CR,CRLF,LFLF,CRCR,...}, blank lines, BOM, space runs, optional xrefs, padded values, records and role lines after a family; each under all 4 option combinations; non-trivial = accepted, >= 3 nodes and (dedent >= 2 or mixed terminators or blank lines or BOM or continuation or clamp); distinct by hash of (blueprint, options)",
		20, harness.Pick(60000, 1500000), gen.TextOpts{MaxLines: 25})
	run(t, "structured-lenient",
		"as structured-strict plus over-deep jumps, a first line above level 0 and unparsable (continuation) lines, so that both documented leniencies are exercised",
		21, harness.Pick(60000, 1500000), gen.TextOpts{MaxLines: 25, OverDeep: true, Raw: true})
	run(t, "byte-mutated",
		"as structured-lenient with 1..4 byte mutations (flip, set, delete, insert, truncate, duplicate line); acceptance disagreements with the reference grammar are only counted (class unmodelled:*), trees are compared whenever both accept, the normal-form clauses always apply",
		22, harness.Pick(50000, 1500000), gen.TextOpts{MaxLines: 20, OverDeep: true, Raw: true, Mutations: 4})
}

// FuzzDecodeTree is the coverage-guided byte-level target (thorough tier): the
// same oracle, input of unknown provenance (treated like mutated bytes).
func FuzzDecodeTree(f *testing.F) {
	for _, seed := range []string{
		"0 HEAD\n1 CHAR UTF-8\n0 @I1@ INDI\n1 NAME John /Smith/\n1 BIRT\n2 DATE 3 Sep 1943\n0 @F1@ FAM\n1 HUSB @I1@\n0 TRLR\n",
		"\xef\xbb\xbf0 A\r\n1 B x\r\n2 C\r\n1 D\r\n", "0 NOTE a\nb\n\nc\n1 CONT d\n", "0 A\n5 B\n2 C\n", "1 A\n0 B\n",
		"0 @I1@ INDI x\nmore\n10 DEEP\n", "0 A\n1 B\n2 C\n3 D\n4 E\n5 F\n6 G\n7 H\n8 I\n9 J\n10 K\n11 L\n1 M\n", "",
	} {
		for o := uint8(0); o < 4; o++ {
			f.Add([]byte(seed), o)
		}
	}
	f.Fuzz(func(t *testing.T, data []byte, o uint8) {
		c := treeCase{Text: &gen.TextBP{Lines: []gen.LineBP{{IsRaw: true, Raw: gen.Str(data)}}, Muts: []gen.Mutation{{Op: "none"}}},
			MultiLine: o&1 != 0, InvalidInds: o&2 != 0}
		if fl, _ := check(c); fl != nil && harness.FuzzFail("fuzz", c, fl) {
			t.Fatalf("%s: %s", fl.Sig, fl.Msg)
		}
	})
}

func init() {
	harness.Assume("reference model internal/ref/lines.go (hand-written scanner and stack builder, no regexp, strings.TrimSpace for trimming)",
		"inputs outside the strict documented grammar (several blanks after an xref, a tag glued to other bytes, an over-deep line with no open node) are not judged against the model; the normal-form clauses still apply to them",
		"continuation of an INDI/FAM line: the model drops the line's own value and then appends continuation text, like every other node")
	replay := func(raw json.RawMessage) *harness.Failure {
		var c treeCase
		if err := json.Unmarshal(raw, &c); err != nil {
			return harness.Failf("bad-replay", "%v", err)
		}
		f, _ := check(c)
		return f
	}
	for _, n := range []string{"structured-strict", "structured-lenient", "byte-mutated", "fuzz"} {
		harness.RegisterReplay(n, replay)
	}
}

func TestReplay(t *testing.T) { harness.RunReplay(t) }
