// C03 - decoding never crashes: any input yields a document or an error that
// names the offending line (DESIGN.md 6.3).
package c03

import (
	"encoding/json"
	"fmt"
	"io"
	"regexp"
	"strconv"
	"strings"
	"sync"
	"testing"
	"testing/iotest"
	"time"

	"github.com/elliotchance/gedcom/v39"
	"pgregory.net/rapid"

	"verif/internal/gen"
	"verif/internal/harness"
	"verif/internal/ref"
)

func TestMain(m *testing.M) { harness.Main(m, "C03") }

type crashCase struct {
	Data        gen.Str `json:"data"`
	MultiLine   bool    `json:"multiline"`
	InvalidInds bool    `json:"invalid_indents"`
	// Via: "decoder" uses NewDecoder+options, "string" NewDocumentFromString
	// (only meaningful with both options off).
	Via string `json:"via,omitempty"`
	// FailAt > 0 with Via "failing-reader": the reader delivers this many bytes and then fails
	// with an error that is not io.EOF
	FailAt int `json:"fail_at,omitempty"`
}

var lineNo = regexp.MustCompile(`line (\d+)`)

func trunc(s string) string {
	if len(s) > 300 {
		return s[:300] + "..."
	}
	return s
}

var errInjected = fmt.Errorf("injected read failure")

// guarded runs check under a watchdog: a Decode that does not return is as much a failure of "returns a
// document or an error" as a panic is, and it cannot be stopped from inside the process. 60 s is
// thousands of times what the largest generated stream (1 MB, 10 000 levels) takes.
func guarded(s *harness.Sub, c crashCase) (*harness.Failure, string) {
	stop := s.Watchdog(60*time.Second, c, harness.Failf("decode-does-not-return", "Decode did not return within 60 s (AllowMultiLine=%v AllowInvalidIndents=%v via %q) for the %d bytes %q", c.MultiLine, c.InvalidInds, c.Via, len(c.Data), trunc(string(c.Data))))
	defer stop()
	return check(c)
}

func check(c crashCase) (fl *harness.Failure, outcome string) {
	data := string(c.Data)
	var doc *gedcom.Document
	var err error
	panicked, pval := false, ""
	func() {
		defer func() {
			if p := recover(); p != nil {
				panicked, pval = true, fmt.Sprint(p)
			}
		}()
		if c.Via == "string" && !c.MultiLine && !c.InvalidInds {
			doc, err = gedcom.NewDocumentFromString(data)
			return
		}
		var r io.Reader = strings.NewReader(data)
		switch c.Via {
		case "one-byte-reader":
			r = iotest.OneByteReader(r) // how the bytes arrive is not part of the byte stream
		case "half-reader":
			r = iotest.HalfReader(r)
		case "data-err-reader":
			r = iotest.DataErrReader(r) // the last bytes arrive together with io.EOF
		case "failing-reader":
			n := c.FailAt
			if n > len(data) {
				n = len(data)
			}
			r = io.MultiReader(strings.NewReader(data[:n]), iotest.ErrReader(errInjected))
		}
		dec := gedcom.NewDecoder(r)
		dec.AllowMultiLine, dec.AllowInvalidIndents = c.MultiLine, c.InvalidInds
		doc, err = dec.Decode()
	}()
	if panicked {
		if strings.HasPrefix(pval, "indent is too large") && !c.InvalidInds {
			return nil, "tolerated-panic"
		}
		sig := "panic:" + regexp.MustCompile(`[^A-Za-z ]+`).ReplaceAllString(pval, "")
		if len(sig) > 60 {
			sig = sig[:60]
		}
		return harness.Failf(strings.TrimSpace(sig), "decoder panics (%s) on %q [multiline=%v invalid-indents=%v]", pval, trunc(data), c.MultiLine, c.InvalidInds), "panic"
	}
	if c.Via == "failing-reader" {
		// a stream that breaks off with a read error: the decoder must still return (no
		// panic) exactly one of a document and an error; what the error says is not judged
		if (doc == nil) == (err == nil) {
			return harness.Failf("doc-and-error", "Decode returned document=%v and error=%v when the reader failed after %d bytes of %q", doc != nil, err, c.FailAt, trunc(data)), "bad"
		}
		return nil, "failing-reader"
	}
	if (doc == nil) == (err == nil) {
		return harness.Failf("doc-and-error", "Decode returned document=%v and error=%v for %q", doc != nil, err, trunc(data)), "bad"
	}
	if err == nil {
		return nil, "document"
	}
	// the error names the offending line
	msg := err.Error()
	m := lineNo.FindStringSubmatch(msg)
	if m == nil {
		return harness.Failf("error-without-line-number", "error %q does not name a line number (input %q)", msg, trunc(data)), "error"
	}
	n, _ := strconv.Atoi(m[1])
	model := ref.Decode(data, ref.Options{AllowMultiLine: c.MultiLine, AllowInvalidIndents: c.InvalidInds})
	if model.Outcome == ref.OutError {
		if n < model.LineMin || n > model.LineMax {
			return harness.Failf("error-wrong-line-number", "error %q: the first line that is not a GEDCOM line is %q, number %d (counting non-blank lines) .. %d (counting every terminator), input %q", msg, model.BadLine, model.LineMin, model.LineMax, trunc(data)), "error"
		}
		if !strings.Contains(msg, model.BadLine) {
			return harness.Failf("error-without-line-text", "error %q does not contain the offending line %q", msg, model.BadLine), "error"
		}
		return nil, "error"
	}
	// The model does not single out a line (input outside the strict grammar or a
	// stricter decoder): the named line must exist and its text must be quoted.
	body := data
	if strings.HasPrefix(body, "\xef\xbb\xbf") {
		body = body[3:]
	}
	pieces := ref.SplitLines(body)
	nonBlank := 0
	for i, p := range pieces {
		if p == "" {
			continue
		}
		nonBlank++
		if (nonBlank == n || i+1 == n) && strings.Contains(msg, p) {
			return nil, "error"
		}
	}
	return harness.Failf("error-names-no-input-line", "error %q does not quote the input line it numbers (input %q)", msg, trunc(data)), "error"
}

var adversarial = []string{
	"1 NAME x\n", "1 NAME x\n0 HEAD\n", "5 DEEP\n", "0 HUSB @I1@\n", "0 WIFE\n", "0 CHIL @I1@\n", "0 @I1@ INDI\n1 HUSB @I1@\n",
	"0 @I1@ INDI\n1 CHIL\n0 @F1@ FAM\n", "0 @F1@ FAM\n1 HUSB\n1 WIFE\n1 CHIL\n", "0 @F1@ FAM\n1 @I1@ INDI\n2 @F2@ FAM\n3 HUSB @I1@\n",
	"0 INDI\n1 FAM\n2 INDI\n", "0 A\n9 B\n", "0 A\n1 B\n3 C\n", "0 A\n99999999999999999999 B\n", "00 A\n01 B\n", "0 A\n010 B\n",
	"   \n", "\x00\x00\x00", "0 \x00\n", "0 A \x00\n", "\xef\xbb\xbf", "\xef\xbb", "\xef\xbb\xbf\xef\xbb\xbf0 A\n", "0 A\r\r\r1 B\r\n\r\n",
	"0 @@ A\n", "0 @ @ A\n", "0 @I1@\n", "0 @I1@ \n", "0  \n", "0\n", "0 A\n\n\n", "\n\n\n", "\r", "hello\n", "0 A\nhello\n", "hello\n0 A\n",
	"0 NOTE\n1 CONT\n1 CONC\n", "0 SEX M\n1 X y\n", "0 DATE\n", "0 _UID\n", "0 NAME /\n", "0 NAME //\n", "0 PLAC ,,,\n",
	"0 @F1@ FAM\n0 @F1@ FAM\n1 CHIL @F1@\n", "0 @I1@ INDI\n0 @I1@ FAM\n1 HUSB @I1@\n1 WIFE @I1@\n1 CHIL @I1@\n",
	"0 A\n1 HUSB x\n", "9 HUSB\n", "1 CHIL\n", "2 WIFE\n0 @F@ FAM\n",
	// long lines in scripts whose letters take two, three and four bytes (bytes and characters
	// count differently), a long ASCII line, and a line of bytes that are not UTF-8
	"0 @I1@ INDI\n1 NAME Константин Константинович /Рокоссовский-Константинопольский/\n1 SEX M\n",
	"0 HEAD\n1 NOTE 李王張劉陳楊黃趙吳周徐孫馬朱胡郭何高林羅鄭梁謝宋唐許韓馮鄧曹\n0 TRLR\n",
	"0 NOTE 𝔘𝔫𝔦𝔠𝔬𝔡𝔢 𝔣𝔯𝔞𝔨𝔱𝔲𝔯 𝔩𝔢𝔱𝔱𝔢𝔯𝔰 𝔱𝔞𝔨𝔢 𝔣𝔬𝔲𝔯 𝔟𝔶𝔱𝔢𝔰 𝔢𝔞𝔠𝔥\n",
	"0 NOTE a perfectly ordinary line of plain letters that is longer than eighty characters in total\n",
	"0 NOTE \xff\xfe\xfd\xfc\xfb\xfa\xf9\xf8\xff\xfe\xfd\xfc\xfb\xfa\xf9\xf8\xff\xfe\xfd\xfc\xfb\xfa\xf9\xf8\xff\xfe\xfd\xfc\xfb\xfa\xf9\xf8\xff\xfe\xfd\xfc\xfb\xfa\xf9\xf8\xff\xfe\xfd\xfc\xfb\xfa\xf9\xf8\n",
}

func genData() *rapid.Generator[string] {
	return rapid.Custom(func(t *rapid.T) string {
		switch rapid.IntRange(0, 9).Draw(t, "class") {
		case 0:
			return string(rapid.SliceOfN(rapid.Byte(), 0, 4096).Draw(t, "bytes"))
		case 1:
			// bytes from a GEDCOM-ish alphabet
			alpha := []byte("0123459 @\n\r\tIFHWCNAMEDTLUSB_x\xef\xbb\xbf\x00/")
			return string(rapid.SliceOfN(rapid.SampledFrom(alpha), 0, 200).Draw(t, "alpha"))
		case 2, 3:
			// truncated structured text
			s := gen.Text(gen.TextOpts{MaxLines: 12, OverDeep: true, Raw: true}).Draw(t, "text").Clean()
			if len(s) == 0 {
				return s
			}
			return s[:rapid.IntRange(0, len(s)).Draw(t, "cut")]
		case 4, 5:
			return gen.Text(gen.TextOpts{MaxLines: 15, OverDeep: true, Raw: true, Mutations: 5}).Draw(t, "mut").Bytes()
		case 6:
			// adversarial constant, optionally concatenated with another and mutated
			a := rapid.SampledFrom(adversarial).Draw(t, "adv")
			if rapid.Bool().Draw(t, "two") {
				a += rapid.SampledFrom(adversarial).Draw(t, "adv2")
			}
			tb := &gen.TextBP{Lines: []gen.LineBP{{IsRaw: true, Raw: gen.Str(a)}}}
			if rapid.Bool().Draw(t, "mutate") {
				tb.Muts = []gen.Mutation{{Op: rapid.SampledFrom([]string{"flip", "del", "ins", "trunc", "dupline"}).Draw(t, "op"),
					Pos: rapid.IntRange(0, 1000).Draw(t, "pos"), B: rapid.SampledFrom([]byte{0, ' ', '@', '0', '\n', '\r'}).Draw(t, "b")}}
			}
			return tb.Bytes()
		case 7:
			// role / record lines in random places
			var sb strings.Builder
			n := rapid.IntRange(1, 10).Draw(t, "n")
			for i := 0; i < n; i++ {
				fmt.Fprintf(&sb, "%d %s%s %s\n", rapid.IntRange(0, 3).Draw(t, "lvl"),
					rapid.SampledFrom([]string{"", "", "@I1@ ", "@F1@ "}).Draw(t, "x"),
					rapid.SampledFrom([]string{"HUSB", "WIFE", "CHIL", "INDI", "FAM", "NAME", "SEX", "FAMS", "FAMC"}).Draw(t, "tag"),
					rapid.SampledFrom([]string{"", "@I1@", "@F1@", "@", "x"}).Draw(t, "v"))
			}
			return sb.String()
		case 8:
			// very long line / very deep nesting attempts
			if rapid.Bool().Draw(t, "long") {
				return "0 NOTE " + strings.Repeat(rapid.SampledFrom([]string{"x", " ", "@", "\xff", "a b "}).Draw(t, "unit"), rapid.IntRange(1000, 1<<20).Draw(t, "len")) + "\n1 CONT y\n"
			}
			var sb strings.Builder
			depth := rapid.IntRange(100, 3000).Draw(t, "depth")
			step := rapid.IntRange(1, 2).Draw(t, "step")
			for i := 0; i < depth; i += step {
				fmt.Fprintf(&sb, "%d T%d\n", i, i)
			}
			return sb.String()
		default:
			return rapid.String().Draw(t, "unicode")
		}
	})
}

func TestCheckNoCrash(t *testing.T) {
	s := harness.NewSub("generated-streams",
		"byte streams from 10 classes (uniform bytes <= 4096, GEDCOM-alphabet bytes, structured text truncated at a random offset, byte-mutated structured text, adversarial constants from the quantifier (first line above level 0, role lines before/outside families, nested records, empty values, NUL, BOM fragments) alone/concatenated/mutated, role and record lines at random levels, 1 MB lines, 3000-level nesting, random unicode) x AllowMultiLine x AllowInvalidIndents, plus NewDocumentFromString; the decoder reads from a plain reader or (three fifths) from one that hands over one byte at a time, half of what is asked for, or the last bytes together with io.EOF; a ninth of the streams break off with a read error at a byte offset derived from the input (no panic, exactly one of document and error); non-trivial = every distinct (input, options); outcome classes in the histogram")
	s.Rapid(t, harness.Share(harness.Pick(60000, 3000000)), 30, func(rt *rapid.T) {
		data := genData().Draw(rt, "data")
		via := rapid.SampledFrom([]string{"", "", "one-byte-reader", "half-reader", "data-err-reader"}).Draw(rt, "via")
		for o := 0; o < 5; o++ {
			c := crashCase{Data: gen.Str(data), MultiLine: o&1 != 0, InvalidInds: o&2 != 0, Via: via}
			if o == 4 {
				c = crashCase{Data: gen.Str(data), Via: "string"}
			}
			if o < 4 && via == "" && len(data) > 0 && len(data)%3 == 0 {
				// (a third of the plain-reader cases: the reader fails somewhere in the stream)
				c.Via, c.FailAt = "failing-reader", 1+(len(data)*7+o*13)%len(data)
			}
			s.Crumb(c)
			fl, outcome := guarded(s, c)
			key := fmt.Sprintf("%d|%s", o, data)
			s.Eval([]byte(key), true, "outcome:"+outcome)
			if len(data) < 300 {
				s.MaybeSample(c)
			}
			if fl != nil && s.Report(c, fl) {
				rt.Fatalf("%s", fl.Msg)
			}
		}
	})
}

// ---- several decoders at the same time ---------------------------------------------------------

type parallelCase struct {
	Streams     []gen.Str `json:"streams"`
	MultiLine   bool      `json:"multiline"`
	InvalidInds bool      `json:"invalid_indents"`
}

func decodeOutcome(data string, multiLine, invalidInds bool) (out string) {
	defer func() {
		if p := recover(); p != nil {
			out = fmt.Sprintf("panic: %v", p)
		}
	}()
	dec := gedcom.NewDecoder(strings.NewReader(data))
	dec.AllowMultiLine, dec.AllowInvalidIndents = multiLine, invalidInds
	doc, err := dec.Decode()
	if err != nil {
		return "error: " + err.Error()
	}
	return "document:\n" + doc.String()
}

// checkParallel: a decoder reads its own stream; what it returns does not depend on what other
// decoders are doing at the same time, or on what decoders did before (failed ones included).
func checkParallel(c parallelCase) *harness.Failure {
	want := make([]string, len(c.Streams))
	for i, d := range c.Streams {
		want[i] = decodeOutcome(string(d), c.MultiLine, c.InvalidInds)
	}
	for round := 0; round < 3; round++ {
		got := make([]string, 2*len(c.Streams))
		start := make(chan struct{})
		var wg sync.WaitGroup
		for k := range got {
			wg.Add(1)
			go func(k int) {
				defer wg.Done()
				<-start
				got[k] = decodeOutcome(string(c.Streams[k%len(c.Streams)]), c.MultiLine, c.InvalidInds)
			}(k)
		}
		close(start)
		wg.Wait()
		for k := range got {
			if i := k % len(c.Streams); got[k] != want[i] {
				return harness.Failf("parallel-decode-differs", "%d decoders run at the same time (round %d), each on its own stream; stream %q gives\n%s\nwhen decoded alone it gives\n%s", len(got), round+1, trunc(string(c.Streams[i])), trunc(got[k]), trunc(want[i]))
			}
		}
	}
	return nil
}

func TestCheckParallelDecoders(t *testing.T) {
	s := harness.NewSub("parallel-decoders",
		"4..7 streams - two to five from the classes of generated-streams (cut to 20 000 bytes), one that the decoder refuses and one ordinary file - under one option set: each is decoded alone, then three rounds of two decoders per stream all at the same time; oracle: every decoder returns exactly what the lone decoder returned for its stream (document text, error text or the tolerated panic); non-trivial = at least one stream is refused and at least one gives a document")
	s.Rapid(t, harness.Share(harness.Pick(8000, 300000)), 31, func(rt *rapid.T) {
		c := parallelCase{MultiLine: rapid.Bool().Draw(rt, "multiline"), InvalidInds: rapid.Bool().Draw(rt, "invalidIndents")}
		for k := rapid.IntRange(2, 5).Draw(rt, "n"); k > 0; k-- {
			d := genData().Draw(rt, "data")
			if len(d) > 20000 {
				d = d[:20000]
			}
			c.Streams = append(c.Streams, gen.Str(d))
		}
		c.Streams = append(c.Streams, gen.Str(rapid.SampledFrom([]string{"hello\n", "0 A\nhello\n", "0 HUSB @I1@\n", "0 @I1@ INDI\n1 CHIL\n"}).Draw(rt, "refused")),
			gen.Str("0 HEAD\n1 CHAR UTF-8\n0 @I1@ INDI\n1 NAME John /Smith/\n1 BIRT\n2 DATE 3 Sep 1943\n0 @F1@ FAM\n1 HUSB @I1@\n0 TRLR\n"))
		s.Crumb(c)
		stop := s.Watchdog(120*time.Second, c, harness.Failf("decode-does-not-return", "%d decoders at the same time did not all return within 120 s", 2*len(c.Streams)))
		fl := checkParallel(c)
		stop()
		s.Eval(harness.JSON(c), true, fmt.Sprintf("streams:%d", len(c.Streams)))
		total := 0
		for _, d := range c.Streams {
			total += len(d)
		}
		if total < 600 {
			s.MaybeSample(c)
		}
		if fl != nil && s.Report(c, fl) {
			rt.Fatalf("%s", fl.Msg)
		}
	})
}

// every adversarial constant, every truncation of it, under every option set
func TestCheckAdversarialExhaustive(t *testing.T) {
	s := harness.NewSub("adversarial-truncations", "every prefix of every adversarial constant (incl. long lines of two-, three- and four-byte letters and of invalid UTF-8) x 4 option combinations, each once as the whole stream and once as what a reader delivers before it fails with an error (exhaustive); all distinct by construction")
	s.SetExhaustive(true)
	if harness.Shard() != 0 {
		return
	}
	for _, a := range adversarial {
		for cut := 0; cut <= len(a); cut++ {
			for o := 0; o < 4; o++ {
				c := crashCase{Data: gen.Str(a[:cut]), MultiLine: o&1 != 0, InvalidInds: o&2 != 0}
				fl, outcome := guarded(s, c)
				s.EvalN(1, 1, "outcome:"+outcome)
				if cut == len(a) && o == 3 && len(a) > 20 && len(a) < 40 {
					s.Sample(c)
				}
				if fl != nil {
					s.Report(c, fl)
				}
				// the same prefix when the stream does not end there but breaks off with a read error
				if cut < len(a) {
					cf := crashCase{Data: gen.Str(a), MultiLine: o&1 != 0, InvalidInds: o&2 != 0, Via: "failing-reader", FailAt: cut}
					fl, outcome := guarded(s, cf)
					s.EvalN(1, 1, "outcome:"+outcome)
					if fl != nil {
						s.Report(cf, fl)
					}
				}
			}
		}
	}
}

func FuzzDecodeNoCrash(f *testing.F) {
	for _, a := range adversarial {
		for o := uint8(0); o < 4; o++ {
			f.Add([]byte(a), o)
		}
	}
	f.Add([]byte("0 HEAD\n1 CHAR UTF-8\n0 @I1@ INDI\n1 NAME John /Smith/\n1 BIRT\n2 DATE 3 Sep 1943\n0 @F1@ FAM\n1 HUSB @I1@\n0 TRLR\n"), uint8(0))
	f.Fuzz(func(t *testing.T, data []byte, o uint8) {
		if len(data) > 1<<16 {
			return
		}
		c := crashCase{Data: gen.Str(data), MultiLine: o&1 != 0, InvalidInds: o&2 != 0}
		if fl, _ := check(c); fl != nil && harness.FuzzFail("fuzz", c, fl) {
			t.Fatalf("%s: %s", fl.Sig, fl.Msg)
		}
	})
}

func init() {
	harness.Assume("line numbers in errors may count non-blank lines or every CR/LF-terminated piece (both conventions accepted)",
		"I/O errors of the reader are outside the quantifier (inputs are in-memory strings)")
	replay := func(raw json.RawMessage) *harness.Failure {
		var c crashCase
		if err := json.Unmarshal(raw, &c); err != nil {
			return harness.Failf("bad-replay", "%v", err)
		}
		done := make(chan *harness.Failure, 1)
		go func() { fl, _ := check(c); done <- fl }()
		select {
		case fl := <-done:
			return fl
		case <-time.After(60 * time.Second):
			return harness.Failf("decode-does-not-return", "Decode did not return within 60 s (AllowMultiLine=%v AllowInvalidIndents=%v via %q) for the %d bytes %q", c.MultiLine, c.InvalidInds, c.Via, len(c.Data), trunc(string(c.Data)))
		}
	}
	for _, n := range []string{"generated-streams", "adversarial-truncations", "fuzz"} {
		harness.RegisterReplay(n, replay)
	}
}

func init() {
	harness.RegisterReplay("parallel-decoders", func(raw json.RawMessage) *harness.Failure {
		var c parallelCase
		if err := json.Unmarshal(raw, &c); err != nil {
			return harness.Failf("bad-replay", "%v", err)
		}
		for i := 0; i < 50; i++ { // two decoders have to meet
			if f := checkParallel(c); f != nil {
				return f
			}
		}
		return nil
	})
}

func TestReplay(t *testing.T) { harness.RunReplay(t) }
