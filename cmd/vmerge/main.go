// vmerge prints the number of distinct little-endian uint64 values in the files
// given as arguments (the per-shard hash sets of non-trivial cases).
package main

import (
	"encoding/binary"
	"fmt"
	"os"
	"sort"
)

func main() {
	var all []uint64
	for _, f := range os.Args[1:] {
		b, err := os.ReadFile(f)
		if err != nil {
			fmt.Fprintln(os.Stderr, err)
			os.Exit(2)
		}
		for i := 0; i+8 <= len(b); i += 8 {
			all = append(all, binary.LittleEndian.Uint64(b[i:]))
		}
	}
	sort.Slice(all, func(i, j int) bool { return all[i] < all[j] })
	n := 0
	for i, v := range all {
		if i == 0 || v != all[i-1] {
			n++
		}
	}
	fmt.Println(n)
}
