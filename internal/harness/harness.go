// Package harness is the case runner shared by all checks: it counts oracle
// evaluations, keeps the set of distinct non-trivial cases, a class histogram and
// samples, attributes failures to listed known findings, keeps the smallest
// failing case per sub-check as the replay, writes breadcrumbs before
// process-fatal operations and emits one evidence fragment per child process.
//
// A check is a Go test package. Its TestMain calls harness.Main(m). Its tests
// create sub-checks with harness.NewSub and report cases through them. Nothing in
// here makes a random choice or reads the clock for anything but wall time.
package harness

import (
	"encoding/binary"
	"encoding/json"
	"flag"
	"fmt"
	"hash/fnv"
	"os"
	"regexp"
	"sort"
	"strconv"
	"strings"
	"sync"
	"testing"
	"time"

	"pgregory.net/rapid"
)

// Failure describes one violated oracle clause.
type Failure struct {
	// Sig is a narrow, stable class signature of the failure ("which clause, on
	// which input class"). Known findings are matched on it and on nothing else.
	Sig string `json:"sig"`
	Msg string `json:"msg"`
}

func Failf(sig, format string, args ...interface{}) *Failure {
	return &Failure{Sig: sig, Msg: fmt.Sprintf(format, args...)}
}

type violation struct {
	Sub  string          `json:"sub"`
	Sig  string          `json:"sig"`
	Msg  string          `json:"msg"`
	Case json.RawMessage `json:"case"`
}

// Sub is one sub-check (one generator/oracle pair) of a property.
type Sub struct {
	Name string
	Rule string

	mu         sync.Mutex
	evals      int64
	nontrivial map[uint64]struct{}
	ntCount    int64 // for enumerators that are distinct by construction
	classes    map[string]int64
	samples    []json.RawMessage
	sampleSeen int64
	excluded   map[string]int64
	viol       map[string]*violation // smallest per signature
	exhaustive bool
	requested  int64
	executed   int64
	notes      []string
}

type finding struct {
	ID       string `json:"id"`
	Property string `json:"property"`
	Status   string `json:"status"`
	Sub      string `json:"sub"`
	Sig      string   `json:"sig"`
	Sigs     []string `json:"sigs"`
	What     string   `json:"what"`
	Witness  string `json:"witness"`
}

type findingsFile struct {
	Findings []finding `json:"findings"`
	Fixed    []string  `json:"fixed"`
}

var (
	property string
	subs     []*Sub
	subsMu   sync.Mutex
	openSigs = map[string]string{} // sig -> finding id
	assumes  []string
	replays  = map[string]func(json.RawMessage) *Failure{}
	started  = time.Now()
)

// Tier is "quick" or "thorough".
func Tier() string {
	if os.Getenv("VERIF_TIER") == "thorough" {
		return "thorough"
	}
	return "quick"
}

func Thorough() bool { return Tier() == "thorough" }

// Pick returns q in the quick tier and th in the thorough tier.
func Pick(q, th int) int {
	if Thorough() {
		return th
	}
	return q
}

func envInt(name string, def int) int {
	if v, err := strconv.Atoi(os.Getenv(name)); err == nil {
		return v
	}
	return def
}

// Shard and NShards identify this child among the parallel children.
func Shard() int   { return envInt("VERIF_SHARD", 0) }
func NShards() int { return envInt("VERIF_NSHARDS", 1) }

// Seed is VERIF_SEED (default 1).
func Seed() int { return envInt("VERIF_SEED", 1) }

// RapidSeed is the PRNG value for this shard; never 0 (0 means random to rapid).
func RapidSeed(salt int) uint64 {
	return uint64(Seed())*1000003 + uint64(Shard())*7919 + uint64(salt)*104729 + 1
}

// Scale divides a total case budget over the shards.
func Share(total int) int {
	n := NShards()
	s := total / n
	if Shard() < total%n {
		s++
	}
	if s < 1 {
		s = 1
	}
	return s
}

func loadFindings(prop string) {
	path := os.Getenv("VERIF_FINDINGS")
	if path == "" {
		path = "/verif/known_findings.json"
	}
	b, err := os.ReadFile(path)
	if err != nil {
		return
	}
	var ff findingsFile
	if json.Unmarshal(b, &ff) != nil {
		return
	}
	for _, f := range ff.Findings {
		if f.Property == prop && f.Status == "open" {
			if f.Sig != "" {
				openSigs[f.Sig] = f.ID
			}
			for _, sg := range f.Sigs {
				openSigs[sg] = f.ID
			}
		}
	}
}

// Main is called from TestMain of every check package.
func Main(m *testing.M, prop string) {
	property = prop
	loadFindings(prop)
	flag.Parse()
	// rapid: no fail files, bounded shrinking; every value comes from our seed.
	_ = flag.Set("rapid.nofailfile", "true")
	if flag.Lookup("rapid.shrinktime") != nil {
		_ = flag.Set("rapid.shrinktime", os.Getenv("VERIF_SHRINK"))
		if os.Getenv("VERIF_SHRINK") == "" {
			_ = flag.Set("rapid.shrinktime", "15s")
		}
	}
	code := m.Run()
	flush(code)
	os.Exit(code)
}

// Assume records an assumption / trusted-base statement for the evidence file.
func Assume(a ...string) { assumes = append(assumes, a...) }

// Abort flushes the evidence fragment and ends the process. It is used by
// watchdogs: a goroutine that hangs inside the code under test cannot be stopped
// in any other way.
func Abort(code int) {
	flush(code)
	os.Exit(code)
}

// Watchdog reports f for case c and aborts the process if stop is not called
// within d. d must be generous (hundreds of times the normal duration).
func (s *Sub) Watchdog(d time.Duration, c interface{}, f *Failure) (stop func()) {
	t := time.AfterFunc(d, func() {
		s.Report(c, f)
		Abort(1)
	})
	return func() { t.Stop() }
}

// NewSub registers a sub-check.
func NewSub(name, rule string) *Sub {
	s := &Sub{Name: name, Rule: rule,
		nontrivial: map[uint64]struct{}{}, classes: map[string]int64{},
		excluded: map[string]int64{}, viol: map[string]*violation{}}
	subsMu.Lock()
	subs = append(subs, s)
	subsMu.Unlock()
	return s
}

func hash64(b []byte) uint64 {
	h := fnv.New64a()
	h.Write(b)
	return h.Sum64()
}

const maxSamples = 6

// Eval counts one oracle evaluation. key identifies the case for distinctness
// (only used when nontrivial); classes feed the histogram.
func (s *Sub) Eval(key []byte, nontrivial bool, classes ...string) {
	s.mu.Lock()
	s.evals++
	if nontrivial {
		s.nontrivial[hash64(key)] = struct{}{}
	}
	for _, c := range classes {
		s.classes[c]++
	}
	s.mu.Unlock()
}

// EvalN is for enumerators whose cases are distinct by construction.
func (s *Sub) EvalN(evals, nontrivial int64, classes ...string) {
	s.mu.Lock()
	s.evals += evals
	s.ntCount += nontrivial
	for _, c := range classes {
		s.classes[c] += evals
	}
	s.mu.Unlock()
}

func (s *Sub) Class(c string, n int64) {
	s.mu.Lock()
	s.classes[c] += n
	s.mu.Unlock()
}

// WantSample says whether the caller should bother to build a sample value.
// Samples are taken at exponentially growing positions so that they are spread
// over the run without any random choice.
func (s *Sub) WantSample() bool {
	s.mu.Lock()
	defer s.mu.Unlock()
	s.sampleSeen++
	n := s.sampleSeen
	if len(s.samples) >= maxSamples {
		return false
	}
	// positions 1, 2, 8, 64, 512, 4096 ...
	want := int64(1)
	for i := 0; i < len(s.samples); i++ {
		if i == 0 {
			want = 2
		} else {
			want *= 4
		}
	}
	return n >= want
}

func (s *Sub) Sample(v interface{}) {
	b, err := json.Marshal(v)
	if err != nil {
		return
	}
	if len(b) > 4000 {
		b, _ = json.Marshal(string(b[:4000]) + "...(truncated)")
	}
	s.mu.Lock()
	if len(s.samples) < maxSamples {
		s.samples = append(s.samples, b)
	}
	s.mu.Unlock()
}

// MaybeSample marshals v only when a sample slot is due.
func (s *Sub) MaybeSample(v interface{}) {
	if s.WantSample() {
		s.Sample(v)
	}
}

func (s *Sub) SetExhaustive(b bool) { s.exhaustive = b }
func (s *Sub) Requested(n int64)    { s.mu.Lock(); s.requested += n; s.mu.Unlock() }
func (s *Sub) Executed(n int64)     { s.mu.Lock(); s.executed += n; s.mu.Unlock() }
func (s *Sub) Note(format string, a ...interface{}) {
	s.mu.Lock()
	s.notes = append(s.notes, fmt.Sprintf(format, a...))
	s.mu.Unlock()
}

// Report records a failing case. It returns true when the failure is a new
// violation (not attributed to a listed open finding); rapid properties should
// then call t.Fatalf so that rapid shrinks the case.
func (s *Sub) Report(c interface{}, f *Failure) bool {
	if f == nil {
		return false
	}
	s.mu.Lock()
	defer s.mu.Unlock()
	if id, ok := openSigs[f.Sig]; ok {
		s.excluded[id]++
		return false
	}
	b, err := json.Marshal(c)
	if err != nil {
		b, _ = json.Marshal(fmt.Sprintf("%#v", c))
	}
	old := s.viol[f.Sig]
	if old == nil || len(b) < len(old.Case) {
		s.viol[f.Sig] = &violation{Sub: s.Name, Sig: f.Sig, Msg: f.Msg, Case: b}
	}
	return true
}

// IsKnown reports whether a failure signature belongs to a listed open finding.
func IsKnown(sig string) bool { _, ok := openSigs[sig]; return ok }

// Violations returns the number of distinct violation signatures so far.
func (s *Sub) Violations() int {
	s.mu.Lock()
	defer s.mu.Unlock()
	return len(s.viol)
}

// Crumb writes the case about to be run to the breadcrumb file, so that the
// driver can name the failing case when the process dies.
func (s *Sub) Crumb(c interface{}) {
	path := os.Getenv("VERIF_CRUMB")
	if path == "" {
		return
	}
	b, err := json.Marshal(struct {
		Sub  string      `json:"sub"`
		Case interface{} `json:"case"`
	}{s.Name, c})
	if err != nil {
		return
	}
	_ = os.WriteFile(path, b, 0o644)
}

// Rapid runs a rapid property with n cases under sub-test name. The property
// receives the rapid.T; it must report through s and call t.Fatalf on a new
// violation.
func (s *Sub) Rapid(t *testing.T, n int, salt int, prop func(*rapid.T)) {
	t.Helper()
	_ = flag.Set("rapid.checks", strconv.Itoa(n))
	_ = flag.Set("rapid.seed", strconv.FormatUint(RapidSeed(salt), 10))
	s.Requested(int64(n))
	t.Run(s.Name, func(t *testing.T) {
		rapid.Check(t, func(rt *rapid.T) {
			prop(rt)
			s.Executed(1)
		})
	})
}

// RegisterReplay makes a sub-check replayable without rapid.
func RegisterReplay(sub string, fn func(json.RawMessage) *Failure) {
	replays[sub] = fn
}

// RunReplay is called by TestReplay of each package: it executes the case in
// VERIF_REPLAY and prints a REPLAY-RESULT line for the driver.
func RunReplay(t *testing.T) {
	path := os.Getenv("VERIF_REPLAY")
	if path == "" {
		t.Skip("no VERIF_REPLAY")
	}
	b, err := os.ReadFile(path)
	if err != nil {
		fmt.Printf("REPLAY-RESULT error cannot read %s: %v\n", path, err)
		return
	}
	var r struct {
		Sub  string          `json:"sub"`
		Case json.RawMessage `json:"case"`
	}
	if err := json.Unmarshal(b, &r); err != nil {
		fmt.Printf("REPLAY-RESULT error bad replay file: %v\n", err)
		return
	}
	fn := replays[r.Sub]
	if fn == nil {
		fmt.Printf("REPLAY-RESULT error unknown sub-check %q\n", r.Sub)
		return
	}
	if p := os.Getenv("VERIF_CRUMB"); p != "" {
		_ = os.WriteFile(p, b, 0o644)
	}
	f := func() (f *Failure) {
		defer func() {
			if p := recover(); p != nil {
				f = Failf("replay-panic", "panic during replay: %v", p)
			}
		}()
		return fn(r.Case)
	}()
	if f == nil {
		fmt.Printf("REPLAY-RESULT ok\n")
		return
	}
	fmt.Printf("REPLAY-RESULT fail sig=%s msg=%s\n", f.Sig, strings.ReplaceAll(f.Msg, "\n", "\\n"))
}

type subOut struct {
	Name       string            `json:"name"`
	Rule       string            `json:"rule"`
	Evals      int64             `json:"evaluations"`
	NTCount    int64             `json:"nontrivial_by_construction"`
	Classes    map[string]int64  `json:"classes"`
	Samples    []json.RawMessage `json:"samples"`
	Excluded   map[string]int64  `json:"excluded_known"`
	Exhaustive bool              `json:"exhaustive"`
	Requested  int64             `json:"requested"`
	Executed   int64             `json:"executed"`
	Notes      []string          `json:"notes,omitempty"`
	HashFile   string            `json:"hash_file,omitempty"`
	NHashes    int               `json:"n_hashes"`
}

type fragment struct {
	Property   string       `json:"property"`
	Shard      int          `json:"shard"`
	ExitCode   int          `json:"exit_code"`
	WallS      float64      `json:"wall_s"`
	Subs       []subOut     `json:"subs"`
	Assumes    []string     `json:"assumptions"`
	Violations []*violation `json:"violations"`
}

func flush(code int) {
	out := os.Getenv("VERIF_OUT")
	if out == "" {
		// Developer run: print a summary.
		for _, s := range subs {
			fmt.Printf("sub %-28s evals=%d nontrivial=%d excluded=%v violations=%d classes=%v\n",
				s.Name, s.evals, int64(len(s.nontrivial))+s.ntCount, s.excluded, len(s.viol), s.classes)
			for _, v := range s.viol {
				fmt.Printf("  VIOLATION %s: %s\n    case: %s\n", v.Sig, v.Msg, truncate(string(v.Case), 2000))
			}
		}
		return
	}
	fr := fragment{Property: property, Shard: Shard(), ExitCode: code, WallS: time.Since(started).Seconds(), Assumes: assumes}
	for i, s := range subs {
		so := subOut{Name: s.Name, Rule: s.Rule, Evals: s.evals, NTCount: s.ntCount, Classes: s.classes,
			Samples: s.samples, Excluded: s.excluded, Exhaustive: s.exhaustive,
			Requested: s.requested, Executed: s.executed, Notes: s.notes, NHashes: len(s.nontrivial)}
		if len(s.nontrivial) > 0 {
			hf := fmt.Sprintf("%s.h%d", out, i)
			keys := make([]uint64, 0, len(s.nontrivial))
			for k := range s.nontrivial {
				keys = append(keys, k)
			}
			sort.Slice(keys, func(a, b int) bool { return keys[a] < keys[b] })
			buf := make([]byte, 8*len(keys))
			for j, k := range keys {
				binary.LittleEndian.PutUint64(buf[8*j:], k)
			}
			if os.WriteFile(hf, buf, 0o644) == nil {
				so.HashFile = hf
			}
		}
		sigs := make([]string, 0, len(s.viol))
		for sig := range s.viol {
			sigs = append(sigs, sig)
		}
		sort.Strings(sigs)
		for _, sig := range sigs {
			fr.Violations = append(fr.Violations, s.viol[sig])
		}
		fr.Subs = append(fr.Subs, so)
	}
	b, _ := json.Marshal(fr)
	_ = os.WriteFile(out, b, 0o644)
}

func truncate(s string, n int) string {
	if len(s) > n {
		return s[:n] + "..."
	}
	return s
}

// JSON is a helper for Eval keys.
func JSON(v interface{}) []byte {
	b, _ := json.Marshal(v)
	return b
}

// FuzzFail is called by native fuzz targets on a failing input: it writes the
// replay (sub-check, signature, case) into VERIF_FUZZ_OUT for the driver, unless
// the signature belongs to a listed open finding, and reports whether the caller
// should fail the fuzz run.
func FuzzFail(sub string, c interface{}, f *Failure) bool {
	if f == nil {
		return false
	}
	if _, ok := openSigs[f.Sig]; ok {
		return false
	}
	dir := os.Getenv("VERIF_FUZZ_OUT")
	if dir == "" {
		return true
	}
	cb, _ := json.Marshal(c)
	b, _ := json.Marshal(violation{Sub: sub, Sig: f.Sig, Msg: f.Msg, Case: cb})
	_ = os.WriteFile(fmt.Sprintf("%s/%016x.json", dir, hash64(cb)), b, 0o644)
	return true
}

var sigDigits = regexp.MustCompile(`0x[0-9a-f]+|[0-9]+`)
var sigFrame = regexp.MustCompile(`(?m)^(github\.com/elliotchance/gedcom/v39\S*?)\(`)

// PanicSig reduces a recovered panic to a stable signature: the panic value with
// numbers normalised plus the innermost frame inside the package under test.
// Call it as PanicSig(p, debug.Stack()) inside the deferred function.
func PanicSig(p interface{}, stack []byte) string {
	v := sigDigits.ReplaceAllString(fmt.Sprint(p), "N")
	if len(v) > 70 {
		v = v[:70]
	}
	fn := "?"
	// frames after the call to panic() are the interesting ones
	st := string(stack)
	if i := strings.Index(st, "panic("); i >= 0 {
		st = st[i:]
	}
	for _, m := range sigFrame.FindAllStringSubmatch(st, -1) {
		fn = strings.TrimPrefix(m[1], "github.com/elliotchance/gedcom/v39")
		break
	}
	return strings.ReplaceAll(strings.TrimSpace(v), " ", "_") + "@" + fn
}
