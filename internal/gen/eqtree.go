package gen

import (
	"fmt"

	"github.com/elliotchance/gedcom/v39"
	"pgregory.net/rapid"
)

// Trees for the equality / diff / merge properties (C07-C09): small alphabets so
// that duplicate and equal-but-differently-spelled siblings are frequent, and a
// bias towards several same-kind siblings.

// (SEX is the one kind whose constructor takes no children: below it, children only survive
// when they are attached with AddNode or decoded, which is how every user of EqTree builds)
var EqPlainTags = []string{"_A", "_B", "NOTE", "PLAC", "NAME", "TYPE", "OCCU", "SEX", "SOUR", "MAP"}
var EqEventTags = []string{"BIRT", "DEAT", "BURI", "BAPM", "RESI", "EVEN"}
var EqPlainValues = []string{"", "x", "y", "Sydney", "John /Smith/", "Sydney, Australia"}
var EqDateValues = []string{"3 Sep 1943", "03 sep 1943", "Sep 1943", "1943", "Abt. 1943", "Bef. Oct 1943", "Bef. 1950", "Aft. 1900", "Aft. 1920",
	"Bet. 1900 and 1910", "(phrase)", "(other phrase)", "garbage", "", "4 Sep 1943", "Abt. 3 Sep 1943",
	// values on the edge of validity: a year of zero (parses without an error and is still not a date), impossible
	// days, one good end, a range that runs backwards, the first and last day of the calendar
	"0", "0000", "Abt. 0", "Bet. 0 and 0", "Bet. 0 and 1900", "Bet. 3 Sep 1900 and 0", "Jan 0", "31 Feb 1900", "Bet. 1900 and garbage",
	"99999", "1 Jan 0001", "31 Dec 9999", "Bet. 1950 and 1900", "from 1900 to 1910"}
var EqUIDValues = []string{"EE13561DDB204985BFFDEEBF82A5226C5B2E", "EE13561DDB204985BFFDEEBF82A5226C", "ee13561ddb204985bffdeebf82a5226c",
	"6FA1B7A6C32B4BA0B8E2D9A3B1F4C5D7", "not-a-uuid", "", "EE13561DDB204985BFFDEEBF82A5226CFFFF"}

type EqTreeOpts struct {
	MaxNodes int
	MaxDepth int
	Roots    []string // allowed root tags; "" entries mean a plain tag
	Roles    bool     // HUSB/WIFE/CHIL below FAM roots
	// Wide > 0: about one tree in Wide gets 40..160 more children under one node (plain nodes, exact
	// DATE values and well-formed _UID values over a pool half as large as their number, so that
	// duplicates and near-duplicates are frequent; no Before/After dates, so that the laws stay
	// judged on wide trees)
	Wide int
}

func wideChild(t *rapid.T, m int) *NodeBP {
	k := rapid.IntRange(0, m/2).Draw(t, "wk")
	switch rapid.IntRange(0, 4).Draw(t, "wkind") {
	case 0:
		return &NodeBP{Tag: "_A", Value: Str(fmt.Sprintf("v%d", k))}
	case 1:
		return &NodeBP{Tag: "NOTE", Value: Str(fmt.Sprintf("note %d", k%7))}
	case 2:
		return &NodeBP{Tag: "DATE", Value: Str(fmt.Sprintf("%d Sep %d", 1+k%28, 1800+k/28))}
	case 3:
		return &NodeBP{Tag: "_UID", Value: Str(fmt.Sprintf("%032X", k+1))}
	}
	return &NodeBP{Tag: "RESI", Kids: []*NodeBP{{Tag: "DATE", Value: Str(fmt.Sprintf("%d", 1800+k))}}}
}

func eqNode(t *rapid.T, tag string) *NodeBP {
	n := &NodeBP{Tag: tag}
	switch tag {
	case "DATE":
		n.Value = Str(rapid.SampledFrom(EqDateValues).Draw(t, "datev"))
	case "_UID":
		n.Value = Str(rapid.SampledFrom(EqUIDValues).Draw(t, "uidv"))
	case "INDI", "FAM":
	case "HUSB", "WIFE", "CHIL":
		n.Value = Str(rapid.SampledFrom([]string{"@I1@", "@I2@"}).Draw(t, "rolev"))
	case "EVEN", "RESI":
		n.Value = Str(rapid.SampledFrom([]string{"", "", "x"}).Draw(t, "evv"))
	case "BIRT", "DEAT", "BURI", "BAPM":
		n.Value = Str(rapid.SampledFrom([]string{"", "", "Y"}).Draw(t, "evy"))
	default:
		n.Value = Str(rapid.SampledFrom(EqPlainValues).Draw(t, "plainv"))
		if rapid.IntRange(0, 9).Draw(t, "hasp") == 0 {
			n.Pointer = Str(rapid.SampledFrom([]string{"P1", "P2"}).Draw(t, "ptr"))
		}
	}
	return n
}

func childTag(t *rapid.T, parent *NodeBP, prev string, roles bool) string {
	if prev != "" && rapid.IntRange(0, 2).Draw(t, "sameAsPrev") == 0 {
		return prev
	}
	k := rapid.IntRange(0, 9).Draw(t, "ckind")
	switch {
	case parent.Tag == "FAM" && roles && k <= 1:
		return rapid.SampledFrom([]string{"HUSB", "WIFE", "CHIL"}).Draw(t, "role")
	case k <= 3:
		return "DATE"
	case k == 4:
		return "_UID"
	case k <= 6:
		return rapid.SampledFrom(EqEventTags).Draw(t, "evtag")
	default:
		return rapid.SampledFrom(EqPlainTags).Draw(t, "ptag")
	}
}

// EqTree draws one tree.
func EqTree(o EqTreeOpts) *rapid.Generator[*NodeBP] {
	if len(o.Roots) == 0 {
		o.Roots = []string{"", "", "INDI", "FAM", "BIRT", "RESI", "EVEN"}
	}
	if o.MaxDepth == 0 {
		o.MaxDepth = 4
	}
	return rapid.Custom(func(t *rapid.T) *NodeBP {
		rt := rapid.SampledFrom(o.Roots).Draw(t, "root")
		if rt == "" {
			rt = rapid.SampledFrom(EqPlainTags).Draw(t, "rootplain")
		}
		root := eqNode(t, rt)
		if IsRecord(rt) {
			root.Pointer = Str(rapid.SampledFrom([]string{"I1", "F1"}).Draw(t, "rootptr"))
		}
		n := rapid.IntRange(0, o.MaxNodes-1).Draw(t, "n")
		all := []*NodeBP{root}
		depth := []int{0}
		for i := 0; i < n; i++ {
			pi := 0
			switch rapid.IntRange(0, 2).Draw(t, "where") {
			case 0:
				pi = len(all) - 1
			case 1:
				pi = rapid.IntRange(0, len(all)-1).Draw(t, "parent")
			}
			if depth[pi] >= o.MaxDepth {
				pi = 0
			}
			p := all[pi]
			prev := ""
			if len(p.Kids) > 0 {
				prev = p.Kids[len(p.Kids)-1].Tag
			}
			c := eqNode(t, childTag(t, p, prev, o.Roles))
			p.Kids = append(p.Kids, c)
			all, depth = append(all, c), append(depth, depth[pi]+1)
		}
		if o.Wide > 0 && rapid.IntRange(0, o.Wide-1).Draw(t, "wide") == o.Wide/2 {
			p := all[rapid.IntRange(0, len(all)-1).Draw(t, "wideparent")]
			m := rapid.IntRange(40, 160).Draw(t, "widen")
			for j := 0; j < m; j++ {
				p.Kids = append(p.Kids, wideChild(t, m))
			}
		}
		return root
	})
}

// BuildTree builds a single tree inside a fresh document (top-down through the
// public API) and returns the document, the root node and the blueprint->node map.
func BuildTree(root *NodeBP) (*gedcom.Document, gedcom.Node, map[*NodeBP]gedcom.Node) {
	f := &ForestBP{TopDown: true, Roots: []*NodeBP{root}}
	// role nodes need a family before them; a FAM root provides it, otherwise rename
	f.FixRoles()
	b := f.Build()
	return b.Doc, b.Nodes[root], b.Nodes
}

// MaxFanout is the largest number of children of any node of the tree.
func MaxFanout(root *NodeBP) int {
	m := 0
	root.Walk(0, func(n *NodeBP, _ int) {
		if len(n.Kids) > m {
			m = len(n.Kids)
		}
	})
	return m
}

// HasSameKindSiblings reports whether some node has two children with the same
// non-plain tag.
func HasSameKindSiblings(root *NodeBP) bool {
	found := false
	root.Walk(0, func(n *NodeBP, _ int) {
		seen := map[string]int{}
		for _, k := range n.Kids {
			switch k.Tag {
			case "DATE", "_UID", "RESI", "EVEN", "BIRT", "DEAT", "BURI", "BAPM":
				seen[k.Tag]++
				if seen[k.Tag] >= 2 {
					found = true
				}
			}
		}
	})
	return found
}

// PermuteAt returns a clone of root in which the children of the idx-th node
// (document order) are re-ordered by perm.
func PermuteAt(root *NodeBP, idx int, perm []int) *NodeBP {
	c := root.Clone()
	i := 0
	c.Walk(0, func(n *NodeBP, _ int) {
		if i == idx && len(perm) == len(n.Kids) {
			kids := make([]*NodeBP, len(n.Kids))
			for a, b := range perm {
				kids[a] = n.Kids[b]
			}
			n.Kids = kids
		}
		i++
	})
	return c
}

// Nth returns the idx-th node in document order and its parent.
func Nth(root *NodeBP, idx int) (node, parent *NodeBP) {
	i := 0
	var rec func(n, p *NodeBP)
	rec = func(n, p *NodeBP) {
		if i == idx {
			node, parent = n, p
		}
		i++
		for _, k := range n.Kids {
			rec(k, n)
		}
	}
	rec(root, nil)
	return
}

// Permutations of 0..n-1 in lexicographic order.
func Permutations(n int) [][]int {
	var out [][]int
	p := make([]int, n)
	for i := range p {
		p[i] = i
	}
	var rec func(k int)
	rec = func(k int) {
		if k == n {
			out = append(out, append([]int(nil), p...))
			return
		}
		for i := k; i < n; i++ {
			p[k], p[i] = p[i], p[k]
			rec(k + 1)
			p[k], p[i] = p[i], p[k]
		}
	}
	rec(0)
	return out
}

var _ = fmt.Sprint
