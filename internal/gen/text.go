package gen

import (
	"fmt"
	"strings"

	"pgregory.net/rapid"
)

// G5: GEDCOM byte streams as a list of line blueprints plus byte mutations.

type LineBP struct {
	Level int    `json:"l"`
	Xref  Str    `json:"x,omitempty"`
	Tag   string `json:"t,omitempty"`
	Value Str    `json:"v,omitempty"`    // raw, may carry leading/trailing blanks
	Gap   int    `json:"g,omitempty"`    // extra spaces after the level
	Zeros int    `json:"z,omitempty"`    // leading zeros written before the level ("08" is level 8)
	Long  int    `json:"long,omitempty"` // this many further bytes ('x') belong to the value
	Raw   Str    `json:"raw,omitempty"`
	IsRaw bool   `json:"israw,omitempty"` // emit Raw verbatim (continuation / unparsable line)
	Term  string `json:"e"`               // terminator bytes after the line
}

type Mutation struct {
	Op  string `json:"op"` // flip | del | ins | dupline | trunc
	Pos int    `json:"pos"`
	B   byte   `json:"b,omitempty"`
}

type TextBP struct {
	BOM   bool       `json:"bom,omitempty"`
	Lines []LineBP   `json:"lines"`
	Muts  []Mutation `json:"muts,omitempty"`
}

func (l LineBP) Render() string {
	if l.IsRaw {
		return string(l.Raw)
	}
	s := strings.Repeat("0", l.Zeros) + fmt.Sprintf("%d", l.Level) + strings.Repeat(" ", 1+l.Gap)
	if l.Xref != "" {
		s += "@" + string(l.Xref) + "@ "
	}
	s += l.Tag
	if l.Value != "" || l.Long > 0 {
		s += " " + string(l.Value) + strings.Repeat("x", l.Long)
	}
	return s
}

// Clean renders the text without mutations.
func (t *TextBP) Clean() string {
	var sb strings.Builder
	if t.BOM {
		sb.WriteString("\xef\xbb\xbf")
	}
	for _, l := range t.Lines {
		sb.WriteString(l.Render())
		sb.WriteString(l.Term)
	}
	return sb.String()
}

// Bytes renders the text and applies the mutations.
func (t *TextBP) Bytes() string {
	b := []byte(t.Clean())
	for _, m := range t.Muts {
		if len(b) == 0 {
			if m.Op == "ins" {
				b = append(b, m.B)
			}
			continue
		}
		p := m.Pos % len(b)
		switch m.Op {
		case "flip":
			b[p] ^= 1 << (m.B % 8)
		case "set":
			b[p] = m.B
		case "del":
			b = append(b[:p], b[p+1:]...)
		case "ins":
			b = append(b[:p], append([]byte{m.B}, b[p:]...)...)
		case "trunc":
			b = b[:p]
		case "dupline":
			// duplicate the line around p
			s, e := p, p
			for s > 0 && b[s-1] != '\n' && b[s-1] != '\r' {
				s--
			}
			for e < len(b) && b[e] != '\n' && b[e] != '\r' {
				e++
			}
			if e < len(b) {
				e++
			}
			dup := append([]byte(nil), b[s:e]...)
			b = append(b[:e], append(dup, b[e:]...)...)
		}
	}
	return string(b)
}

// RawPool: lines that are certainly not GEDCOM lines (used as continuation text).
var RawPool = []string{"hello", "second paragraph of a note", " leading blank", "x 1 NAME y", "@I1@ INDI", "1NAME glued", "-1 NEG",
	"12", "7 ", "3 @", "2 @@ X", "1 @I1 NAME", "tab\there", "1\tNAME tab", ".", "1 ", "１ NAME fullwidth", "0 ÉTAG", "   ", "1 @X@", "9 @ab@INDI"}

var terminators = []string{"\n", "\n", "\n", "\r", "\r\n", "\r\n", "\n\n", "\r\r", "\n\r\n", "\r\n\r\n"}

// RawValue draws a value for text lines: a legal value, optionally padded with blanks.
func RawValue() *rapid.Generator[string] {
	return rapid.Custom(func(t *rapid.T) string {
		v := Value().Draw(t, "v")
		switch rapid.IntRange(0, 7).Draw(t, "pad") {
		case 0:
			v = "  " + v
		case 1:
			v = v + "  "
		case 2:
			v = " \t" + v + "\t "
		case 3:
			if v == "" {
				v = "   "
			}
		}
		return v
	})
}

type TextOpts struct {
	MaxLines  int
	OverDeep  bool // jumps of more than one level, first line above level 0
	Raw       bool // unparsable lines
	Mutations int  // max byte mutations
}

// Text draws a text blueprint with a random level walk.
func Text(o TextOpts) *rapid.Generator[*TextBP] {
	return rapid.Custom(func(t *rapid.T) *TextBP {
		tb := &TextBP{BOM: rapid.IntRange(0, 4).Draw(t, "bom") == 0}
		n := rapid.IntRange(0, o.MaxLines).Draw(t, "lines")
		depth := -1 // level of the previous node line
		seenFam := false
		oneTerm := ""
		if rapid.Bool().Draw(t, "uniformTerm") {
			oneTerm = rapid.SampledFrom([]string{"\n", "\r", "\r\n"}).Draw(t, "term")
		}
		for i := 0; i < n; i++ {
			l := LineBP{}
			if oneTerm != "" {
				l.Term = oneTerm
			} else {
				l.Term = rapid.SampledFrom(terminators).Draw(t, "term")
			}
			if i == n-1 && rapid.IntRange(0, 2).Draw(t, "noFinalTerm") == 0 {
				l.Term = ""
			}
			if o.Raw && rapid.IntRange(0, 7).Draw(t, "raw") == 0 {
				l.IsRaw = true
				l.Raw = Str(rapid.SampledFrom(RawPool).Draw(t, "rawtext"))
				tb.Lines = append(tb.Lines, l)
				continue
			}
			// level walk
			move := rapid.IntRange(0, 9).Draw(t, "move")
			switch {
			case depth < 0:
				l.Level = 0
				if o.OverDeep && move == 0 {
					l.Level = rapid.IntRange(1, 3).Draw(t, "firstLevel")
				}
			case move <= 3:
				l.Level = depth + 1
			case move <= 5:
				l.Level = depth
			case move <= 7:
				if depth >= 1 {
					l.Level = rapid.IntRange(1, depth).Draw(t, "dedent")
				} else {
					l.Level = depth
				}
			case move == 8:
				l.Level = 0
			default:
				l.Level = depth + 1
				if o.OverDeep {
					l.Level = depth + rapid.IntRange(2, 5).Draw(t, "jump")
				}
			}
			kind := rapid.IntRange(0, 11).Draw(t, "kind")
			switch {
			case kind == 0:
				l.Tag = rapid.SampledFrom([]string{"INDI", "FAM"}).Draw(t, "rec")
				l.Xref = Str(rapid.SampledFrom([]string{"I1", "I2", "F1", "F2", "a b", ""}).Draw(t, "recx"))
				if rapid.IntRange(0, 3).Draw(t, "recval") == 0 {
					l.Value = "ignored value"
				}
			case kind <= 2 && seenFam:
				l.Tag = rapid.SampledFrom([]string{"HUSB", "WIFE", "CHIL"}).Draw(t, "role")
				l.Value = Str(rapid.SampledFrom([]string{"@I1@", "@I2@", "", "@nobody@", "I1", "@F1@"}).Draw(t, "rolev"))
			default:
				l.Tag = PlainTag().Draw(t, "tag")
				l.Value = Str(RawValue().Draw(t, "val"))
				if rapid.IntRange(0, 4).Draw(t, "hasx") == 0 {
					l.Xref = Str(rapid.SampledFrom([]string{"I1", "P1", "N 1", "x/y", "é", "\xff", "1"}).Draw(t, "x"))
				}
			}
			if l.Tag == "FAM" {
				seenFam = true
			}
			if rapid.IntRange(0, 5).Draw(t, "gap") == 0 {
				l.Gap = rapid.IntRange(1, 3).Draw(t, "gapn")
			}
			if rapid.IntRange(0, 999).Draw(t, "long") == 733 && l.Tag != "" { // (not 0: rapid favours the ends of a range)
				l.Long = rapid.SampledFrom([]int{65535, 65536, 70000, 140000}).Draw(t, "longn")
			}
			if rapid.IntRange(0, 19).Draw(t, "zeros") == 0 {
				l.Zeros = rapid.IntRange(1, 3).Draw(t, "nzeros")
			}
			depth = l.Level
			tb.Lines = append(tb.Lines, l)
		}
		if o.Mutations > 0 {
			nm := rapid.IntRange(0, o.Mutations).Draw(t, "nmut")
			for i := 0; i < nm; i++ {
				tb.Muts = append(tb.Muts, Mutation{
					Op:  rapid.SampledFrom([]string{"flip", "set", "del", "ins", "trunc", "dupline"}).Draw(t, "op"),
					Pos: rapid.IntRange(0, 1<<16).Draw(t, "pos"),
					B:   rapid.SampledFrom([]byte{0, ' ', '@', '0', '1', '9', '\n', '\r', 0xff, 0xef, 'A', '_', '\t'}).Draw(t, "b"),
				})
			}
		}
		return tb
	})
}
