package gen

import (
	"github.com/elliotchance/gedcom/v39"
	"pgregory.net/rapid"
)

// FromNode makes the blueprint of a live node, so that the same content can be
// built again from nothing.
func FromNode(n gedcom.Node) *NodeBP {
	if gedcom.IsNil(n) {
		return nil
	}
	b := &NodeBP{Tag: n.Tag().Tag(), Value: Str(n.Value()), Pointer: Str(n.Pointer())}
	for _, c := range n.Nodes() {
		if k := FromNode(c); k != nil {
			b.Kids = append(b.Kids, k)
		}
	}
	return b
}

// EditOp is one edit of a live tree through the public API.
type EditOp struct {
	Side  int    `json:"side"` // 0 left, 1 right
	Node  int    `json:"node"` // index into the pre-order list of the tree (modulo its length)
	Op    string `json:"op"`   // add | delete | clear | setdate | setplace | readd
	Tag   string `json:"tag,omitempty"`
	Value string `json:"value,omitempty"`
}

// EditOps draws 1..max edits, biased to the children that node kinds derive their
// equality from (DATE and PLAC below events and residences).
func EditOps(max int) *rapid.Generator[[]EditOp] {
	return rapid.Custom(func(t *rapid.T) []EditOp {
		n := rapid.IntRange(1, max).Draw(t, "nedits")
		var out []EditOp
		for i := 0; i < n; i++ {
			e := EditOp{Side: rapid.IntRange(0, 1).Draw(t, "side"), Node: rapid.IntRange(0, 40).Draw(t, "node"),
				Op: rapid.SampledFrom([]string{"add", "delete", "clear", "setdate", "setdate", "setplace", "setplace", "readd", "swapdate", "swapdate", "swapplace"}).Draw(t, "op")}
			switch e.Op {
			case "add":
				e.Tag = rapid.SampledFrom([]string{"NOTE", "DATE", "PLAC", "RESI", "EVEN", "_X"}).Draw(t, "tag")
				e.Value = rapid.SampledFrom([]string{"", "x", "3 Sep 1943", "Sydney", "1950"}).Draw(t, "value")
			case "setdate", "swapdate":
				e.Value = rapid.SampledFrom(EqDateValues).Draw(t, "date")
			case "setplace", "swapplace":
				e.Value = rapid.SampledFrom([]string{"Sydney", "Leeds", "York, England", ""}).Draw(t, "place")
			}
			out = append(out, e)
		}
		return out
	})
}

func preorder(n gedcom.Node, out *[]gedcom.Node) {
	if gedcom.IsNil(n) {
		return
	}
	*out = append(*out, n)
	for _, c := range n.Nodes() {
		preorder(c, out)
	}
}

// Apply performs the edit on one of the two live trees; it reports whether the
// tree was changed.
func (e EditOp) Apply(left, right gedcom.Node) (changed bool) {
	defer func() {
		// (role nodes cannot be created without their family: such an edit is skipped)
		if recover() != nil {
			changed = false
		}
	}()
	root := left
	if e.Side == 1 {
		root = right
	}
	var all []gedcom.Node
	preorder(root, &all)
	if len(all) == 0 {
		return false
	}
	n := all[e.Node%len(all)]
	// a child is replaced by deleting it and adding a new node through the parent
	replace := func(tag, value string) bool {
		for _, c := range n.Nodes() {
			if c.Tag().Tag() == tag {
				n.DeleteNode(c)
				break
			}
		}
		n.AddNode(gedcom.NewNode(gedcom.TagFromString(tag), value, ""))
		return true
	}
	switch e.Op {
	case "add":
		n.AddNode(gedcom.NewNode(gedcom.TagFromString(e.Tag), e.Value, ""))
		return true
	case "delete":
		if k := n.Nodes(); len(k) > 0 {
			return n.DeleteNode(k[e.Node%len(k)])
		}
	case "clear":
		if len(n.Nodes()) > 0 {
			n.SetNodes(nil)
			return true
		}
	case "setdate":
		return replace("DATE", e.Value)
	case "setplace":
		return replace("PLAC", e.Value)
	case "swapdate", "swapplace":
		// SetNodes with the same number of children: one DATE (PLAC) child replaced by a new
		// node with another value, every other child kept as it is
		tag := map[string]string{"swapdate": "DATE", "swapplace": "PLAC"}[e.Op]
		var next gedcom.Nodes
		swapped := false
		for _, c := range n.Nodes() {
			if !swapped && c.Tag().Tag() == tag && c.Value() != e.Value {
				next = append(next, gedcom.NewNode(c.Tag(), e.Value, ""))
				swapped = true
			} else {
				next = append(next, c)
			}
		}
		if swapped {
			n.SetNodes(next)
		}
		return swapped
	case "readd":
		// the same children again, as new node objects, through SetNodes
		var fresh gedcom.Nodes
		for _, c := range n.Nodes() {
			switch c.Tag().Tag() {
			case "HUSB", "WIFE", "CHIL", "INDI", "FAM":
				return false
			}
			fresh = append(fresh, gedcom.NewNode(c.Tag(), c.Value(), c.Pointer()))
		}
		if len(fresh) > 0 {
			for i, c := range n.Nodes() {
				for _, g := range c.Nodes() {
					fresh[i].AddNode(g)
				}
			}
			n.SetNodes(fresh)
			return true
		}
	}
	return false
}
