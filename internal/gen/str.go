package gen

import (
	"encoding/hex"
	"encoding/json"
	"unicode/utf8"
)

// Str is a byte string that survives JSON: valid UTF-8 is written as a plain JSON
// string, anything else as {"hex": "..."} (encoding/json would silently replace
// invalid bytes by U+FFFD and the replay would no longer be the failing case).
type Str string

func (s Str) MarshalJSON() ([]byte, error) {
	if utf8.ValidString(string(s)) {
		return json.Marshal(string(s))
	}
	return json.Marshal(map[string]string{"hex": hex.EncodeToString([]byte(s))})
}

func (s *Str) UnmarshalJSON(b []byte) error {
	var plain string
	if err := json.Unmarshal(b, &plain); err == nil {
		*s = Str(plain)
		return nil
	}
	var m map[string]string
	if err := json.Unmarshal(b, &m); err != nil {
		return err
	}
	raw, err := hex.DecodeString(m["hex"])
	if err != nil {
		return err
	}
	*s = Str(raw)
	return nil
}
