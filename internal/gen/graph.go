package gen

import (
	"fmt"
	"strings"

	"github.com/elliotchance/gedcom/v39"
	"pgregory.net/rapid"
)

// G2: family-graph blueprint.

type EventBP struct {
	Tag   string    `json:"tag"` // BIRT, BAPM, DEAT, BURI, RESI, EVEN, MARR, DIV, CHR, OCCU, ...
	Value Str       `json:"value,omitempty"`
	Date  Str       `json:"date,omitempty"` // DATE child when non-empty or HasDate
	Place Str       `json:"place,omitempty"`
	More  []*NodeBP `json:"more,omitempty"`
	// HasDate forces a DATE child even when Date is empty.
	HasDate bool `json:"hasdate,omitempty"`
}

type PersonBP struct {
	ID     string    `json:"id"`
	Names  []Str     `json:"names,omitempty"`
	Sex    []string  `json:"sex,omitempty"`
	Events []EventBP `json:"events,omitempty"`
	UIDs   []Str     `json:"uids,omitempty"`
	FIDs   []Str     `json:"fids,omitempty"`
	Notes  []Str     `json:"notes,omitempty"`
	More   []*NodeBP `json:"more,omitempty"`
}

type FamilyBP struct {
	ID       string    `json:"id"`
	Husb     string    `json:"husb,omitempty"` // pointer (without @)
	Wife     string    `json:"wife,omitempty"`
	Children []string  `json:"chil,omitempty"`
	Events   []EventBP `json:"events,omitempty"`
	// HasHusb / HasWife force a HUSB / WIFE line even when the pointer is empty
	// (an empty value).
	HasHusb bool      `json:"hashusb,omitempty"`
	HasWife bool      `json:"haswife,omitempty"`
	More    []*NodeBP `json:"more,omitempty"`
}

type SourceBP struct {
	ID    string    `json:"id"`
	Title Str       `json:"title,omitempty"`
	More  []*NodeBP `json:"more,omitempty"`
}

type GraphBP struct {
	People   []*PersonBP `json:"people"`
	Families []*FamilyBP `json:"families,omitempty"`
	Sources  []*SourceBP `json:"sources,omitempty"`
	// BackLinks writes FAMS / FAMC lines on individuals.
	BackLinks bool `json:"backlinks,omitempty"`
	// FamiliesFirst writes the FAM records before the INDI records.
	FamiliesFirst bool `json:"famfirst,omitempty"`
	Header        bool `json:"header,omitempty"`
}

func (e EventBP) node() *NodeBP {
	n := &NodeBP{Tag: e.Tag, Value: e.Value}
	if e.Date != "" || e.HasDate {
		n.Kids = append(n.Kids, &NodeBP{Tag: "DATE", Value: e.Date})
	}
	if e.Place != "" {
		n.Kids = append(n.Kids, &NodeBP{Tag: "PLAC", Value: e.Place})
	}
	for _, m := range e.More {
		n.Kids = append(n.Kids, m.Clone())
	}
	return n
}

// PersonNode renders one person as a node blueprint.
func (g *GraphBP) PersonNode(p *PersonBP) *NodeBP {
	n := &NodeBP{Tag: "INDI", Pointer: Str(p.ID)}
	for _, nm := range p.Names {
		n.Kids = append(n.Kids, &NodeBP{Tag: "NAME", Value: nm})
	}
	for _, s := range p.Sex {
		n.Kids = append(n.Kids, &NodeBP{Tag: "SEX", Value: Str(s)})
	}
	for _, e := range p.Events {
		n.Kids = append(n.Kids, e.node())
	}
	for _, u := range p.UIDs {
		n.Kids = append(n.Kids, &NodeBP{Tag: "_UID", Value: u})
	}
	for _, u := range p.FIDs {
		n.Kids = append(n.Kids, &NodeBP{Tag: "_FID", Value: u})
	}
	for _, u := range p.Notes {
		n.Kids = append(n.Kids, &NodeBP{Tag: "NOTE", Value: u})
	}
	for _, m := range p.More {
		n.Kids = append(n.Kids, m.Clone())
	}
	if g.BackLinks {
		for _, f := range g.Families {
			if f.Husb == p.ID || f.Wife == p.ID {
				n.Kids = append(n.Kids, &NodeBP{Tag: "FAMS", Value: Str("@" + f.ID + "@")})
			}
			for _, c := range f.Children {
				if c == p.ID {
					n.Kids = append(n.Kids, &NodeBP{Tag: "FAMC", Value: Str("@" + f.ID + "@")})
				}
			}
		}
	}
	return n
}

func ptrValue(p string) Str {
	if p == "" {
		return ""
	}
	return Str("@" + p + "@")
}

func (g *GraphBP) FamilyNode(f *FamilyBP) *NodeBP {
	n := &NodeBP{Tag: "FAM", Pointer: Str(f.ID)}
	if f.Husb != "" || f.HasHusb {
		n.Kids = append(n.Kids, &NodeBP{Tag: "HUSB", Value: ptrValue(f.Husb)})
	}
	if f.Wife != "" || f.HasWife {
		n.Kids = append(n.Kids, &NodeBP{Tag: "WIFE", Value: ptrValue(f.Wife)})
	}
	for _, c := range f.Children {
		n.Kids = append(n.Kids, &NodeBP{Tag: "CHIL", Value: ptrValue(c)})
	}
	for _, e := range f.Events {
		n.Kids = append(n.Kids, e.node())
	}
	for _, m := range f.More {
		n.Kids = append(n.Kids, m.Clone())
	}
	return n
}

// Forest renders the graph as a node forest.
func (g *GraphBP) Forest() *ForestBP {
	f := &ForestBP{TopDown: true}
	if g.Header {
		f.Roots = append(f.Roots, &NodeBP{Tag: "HEAD", Kids: []*NodeBP{{Tag: "CHAR", Value: "UTF-8"}}})
	}
	var people, fams []*NodeBP
	for _, p := range g.People {
		people = append(people, g.PersonNode(p))
	}
	for _, fm := range g.Families {
		fams = append(fams, g.FamilyNode(fm))
	}
	if g.FamiliesFirst {
		f.Roots = append(f.Roots, fams...)
		f.Roots = append(f.Roots, people...)
	} else {
		f.Roots = append(f.Roots, people...)
		f.Roots = append(f.Roots, fams...)
	}
	for _, s := range g.Sources {
		n := &NodeBP{Tag: "SOUR", Pointer: Str(s.ID)}
		if s.Title != "" {
			n.Kids = append(n.Kids, &NodeBP{Tag: "TITL", Value: s.Title})
		}
		for _, m := range s.More {
			n.Kids = append(n.Kids, m.Clone())
		}
		f.Roots = append(f.Roots, n)
	}
	if g.Header {
		f.Roots = append(f.Roots, &NodeBP{Tag: "TRLR"})
	}
	return f
}

// Text renders GEDCOM text with the harness's own writer.
func (g *GraphBP) Text() string { return g.Forest().Render() }

// Doc decodes the rendered text. It panics if the decoder rejects it (the text
// is valid by construction; C01-C03 own that property).
func (g *GraphBP) Doc() *gedcom.Document {
	doc, err := gedcom.NewDocumentFromString(g.Text())
	if err != nil {
		panic("generated graph text rejected by the decoder: " + err.Error())
	}
	return doc
}

// Person returns the person with the given id.
func (g *GraphBP) Person(id string) *PersonBP {
	for _, p := range g.People {
		if p.ID == id {
			return p
		}
	}
	return nil
}

// ---------------------------------------------------------------------------
// generators

var Givens = []string{"John", "Jon", "Jane", "Mary", "Marie", "Maria", "Robert", "Roberta", "Zoë", "Иван", "Anne-Marie", "J.", "Elizabeth", "Elisabeth", "Wm", "William"}
var Surnames = []string{"Smith", "Smyth", "Chance", "Chase", "Écrivain", "9lives", "de la Cruz", "O'Neil", "Jones", "Johnson", "Johnston", "Taylor", "Tailor", "李"}

// PersonName draws a NAME value in one of the usual forms.
func PersonName() *rapid.Generator[string] {
	return rapid.Custom(func(t *rapid.T) string {
		g := rapid.SampledFrom(Givens).Draw(t, "given")
		s := rapid.SampledFrom(Surnames).Draw(t, "surname")
		switch rapid.IntRange(0, 11).Draw(t, "nameform") {
		case 10:
			// a long run of given names (66..180 bytes: past every small fixed-size buffer, below the
			// 255 bytes of a file name)
			out, want := g, rapid.IntRange(66, 150).Draw(t, "longgiven")
			for len(out) < want {
				out += " " + rapid.SampledFrom(Givens).Draw(t, "moregiven")
			}
			return out + " /" + s + "/"
		case 11:
			out, want := s, rapid.IntRange(66, 150).Draw(t, "longsurname")
			for len(out) < want {
				out += "-" + rapid.SampledFrom(Surnames).Draw(t, "moresurname")
			}
			return g + " /" + out + "/"
		case 0:
			return g
		case 1:
			return "/" + s + "/"
		case 2:
			return g + " " + rapid.SampledFrom(Givens).Draw(t, "middle") + " /" + s + "/"
		case 3:
			return g + " /" + s + "/ Jr."
		case 4:
			return strings.ToUpper(g) + " /" + strings.ToUpper(s) + "/"
		case 5:
			return g + "  /" + s + "/"
		default:
			return g + " /" + s + "/"
		}
	})
}

var monthAbbr = []string{"", "Jan", "Feb", "Mar", "Apr", "May", "Jun", "Jul", "Aug", "Sep", "Oct", "Nov", "Dec"}

func daysIn(y, m int) int {
	switch m {
	case 2:
		if y%4 == 0 && (y%100 != 0 || y%400 == 0) {
			return 29
		}
		return 28
	case 4, 6, 9, 11:
		return 30
	}
	return 31
}

// SimpleDate draws a valid single date (day, month-year or year) in [lo, hi].
func SimpleDate(lo, hi int) *rapid.Generator[string] {
	return rapid.Custom(func(t *rapid.T) string {
		y := rapid.IntRange(lo, hi).Draw(t, "y")
		switch rapid.IntRange(0, 3).Draw(t, "shape") {
		case 0:
			return fmt.Sprint(y)
		case 1:
			return fmt.Sprintf("%s %d", monthAbbr[rapid.IntRange(1, 12).Draw(t, "m")], y)
		default:
			m := rapid.IntRange(1, 12).Draw(t, "m")
			return fmt.Sprintf("%d %s %d", rapid.IntRange(1, daysIn(y, m)).Draw(t, "d"), monthAbbr[m], y)
		}
	})
}

// DateValue draws any DATE value: valid single dates with optional keyword,
// ranges, phrases and unparsable text.
func DateValue(lo, hi int) *rapid.Generator[string] {
	return rapid.Custom(func(t *rapid.T) string {
		switch rapid.IntRange(0, 11).Draw(t, "datekind") {
		case 0:
			return rapid.SampledFrom([]string{"Abt. ", "Bef. ", "Aft. ", "about ", "c. "}).Draw(t, "kw") + SimpleDate(lo, hi).Draw(t, "d")
		case 1:
			a := SimpleDate(lo, hi).Draw(t, "a")
			b := SimpleDate(lo, hi).Draw(t, "b")
			return "Bet. " + a + " and " + b
		case 2:
			return rapid.SampledFrom([]string{"(unknown)", "(about the time of the war)", "sometime", "", "32 Jan 1900", "Foo 1900", "?"}).Draw(t, "bad")
		default:
			return SimpleDate(lo, hi).Draw(t, "d")
		}
	})
}

var Places = []string{"Sydney, Australia", "Sydney", "London, England", "Paris", "New York, USA", "Ōsaka", "St. Mary's", "places", "Families", ""}

type GraphOpts struct {
	MaxPeople   int
	MaxFamilies int
	YearLo      int
	YearHi      int
	IDPrefix    string // pointer prefix for people ("I")
	FamPrefix   string
	UIDs        bool // _UID / _FID identifiers (well-formed, malformed, shared)
	Sources     bool
	WildDates   bool // keyworded, ranges, unparsable
	// Big > 0: about one graph in Big has BigLo..BigHi people (default 25..80), a sixth to a third as
	// many families and up to 12 children per family
	Big          int
	BigLo, BigHi int
	// Huge > 0: about one graph in Huge has HugeLo..HugeHi people (default 260..400: past a block of 256)
	Huge           int
	HugeLo, HugeHi int
}

// IsHuge: more than 256 people.
func (g *GraphBP) IsHuge() bool { return len(g.People) > 256 }

// IsBig: the graph came from the Big branch of the generator (class label).
func (g *GraphBP) IsBig() bool { return len(g.People) >= 20 }

var uidPool = []string{"EE13561DDB204985BFFDEEBF82A5226C5B2E", "EE13561DDB204985BFFDEEBF82A5226C", "6FA1B7A6C32B4BA0B8E2D9A3B1F4C5D7", "00000000000000000000000000000000",
	"A1B2C3D4E5F60718293A4B5C6D7E8F90", "not-a-uuid", "", "ee13561d-db20-4985-bffd-eebf82a5226c"}
var fidPool = []string{"LZDP-V7V", "KWC2-3XY", "ABCD-123"}

// Graph draws a referentially closed family graph.
func Graph(o GraphOpts) *rapid.Generator[*GraphBP] {
	if o.IDPrefix == "" {
		o.IDPrefix = "I"
	}
	if o.FamPrefix == "" {
		o.FamPrefix = "F"
	}
	if o.YearHi == 0 {
		o.YearLo, o.YearHi = 1800, 1990
	}
	return rapid.Custom(func(t *rapid.T) *GraphBP {
		g := &GraphBP{}
		np := rapid.IntRange(0, o.MaxPeople).Draw(t, "people")
		minFam, maxFam, maxKids := 0, o.MaxFamilies, 4
		if o.Big > 0 && rapid.IntRange(0, o.Big-1).Draw(t, "big") == o.Big/2 {
			lo, hi := o.BigLo, o.BigHi
			if hi == 0 {
				lo, hi = 25, 80
			}
			np = rapid.IntRange(lo, hi).Draw(t, "bigpeople")
			minFam, maxFam, maxKids = np/6, np/3, 12
		}
		if o.Huge > 0 && rapid.IntRange(0, o.Huge-1).Draw(t, "huge") == o.Huge/2 {
			lo, hi := o.HugeLo, o.HugeHi
			if hi == 0 {
				lo, hi = 260, 400
			}
			np = rapid.IntRange(lo, hi).Draw(t, "hugepeople")
			minFam, maxFam, maxKids = np/8, np/4, 8
		}
		dateGen := SimpleDate(o.YearLo, o.YearHi)
		if o.WildDates {
			dateGen = DateValue(o.YearLo, o.YearHi)
		}
		for i := 0; i < np; i++ {
			p := &PersonBP{ID: fmt.Sprintf("%s%d", o.IDPrefix, i+1)}
			nn := rapid.SampledFrom([]int{1, 1, 1, 1, 0, 2, 3, 1, 1, 5, 7}).Draw(t, "nnames")
			for j := 0; j < nn; j++ {
				p.Names = append(p.Names, Str(PersonName().Draw(t, "name")))
			}
			switch rapid.IntRange(0, 5).Draw(t, "sexkind") {
			case 0:
			case 1:
				p.Sex = []string{"M", "F"}
			default:
				p.Sex = []string{rapid.SampledFrom([]string{"M", "F", "U", ""}).Draw(t, "sex")}
			}
			for _, tag := range []string{"BIRT", "BAPM", "DEAT", "BURI", "RESI", "EVEN"} {
				k := rapid.IntRange(0, 5).Draw(t, "ev"+tag)
				if k >= 3 && tag != "BIRT" || k == 5 {
					continue
				}
				e := EventBP{Tag: tag}
				if rapid.IntRange(0, 5).Draw(t, "hasdate") > 0 {
					e.Date = Str(dateGen.Draw(t, "date"))
					e.HasDate = true
				}
				if rapid.IntRange(0, 2).Draw(t, "hasplace") == 0 {
					e.Place = Str(rapid.SampledFrom(Places).Draw(t, "place"))
				}
				p.Events = append(p.Events, e)
				if k == 0 && tag != "RESI" {
					// a second event of the same kind
					e2 := EventBP{Tag: tag, Date: Str(dateGen.Draw(t, "date2")), HasDate: true}
					p.Events = append(p.Events, e2)
				}
			}
			if o.UIDs && rapid.IntRange(0, 2).Draw(t, "hasuid") == 0 {
				p.UIDs = append(p.UIDs, Str(rapid.SampledFrom(uidPool).Draw(t, "uid")))
				if rapid.IntRange(0, 4).Draw(t, "hasfid") == 0 {
					p.FIDs = append(p.FIDs, Str(rapid.SampledFrom(fidPool).Draw(t, "fid")))
				}
			}
			if rapid.IntRange(0, 4).Draw(t, "hasnote") == 0 {
				p.Notes = append(p.Notes, Str(fmt.Sprintf("note %d", i)))
			}
			g.People = append(g.People, p)
		}
		nf := 0
		if np > 0 {
			nf = rapid.IntRange(minFam, maxFam).Draw(t, "families")
		}
		pick := func(label string) string {
			if rapid.IntRange(0, 4).Draw(t, label+"none") == 0 {
				return ""
			}
			return g.People[rapid.IntRange(0, np-1).Draw(t, label)].ID
		}
		for i := 0; i < nf; i++ {
			f := &FamilyBP{ID: fmt.Sprintf("%s%d", o.FamPrefix, i+1)}
			f.Husb = pick("husb")
			f.Wife = pick("wife")
			nc := rapid.IntRange(0, maxKids).Draw(t, "nchildren")
			for j := 0; j < nc; j++ {
				if c := pick("child"); c != "" {
					f.Children = append(f.Children, c)
				}
			}
			if rapid.Bool().Draw(t, "marr") {
				f.Events = append(f.Events, EventBP{Tag: "MARR", Date: Str(dateGen.Draw(t, "marrdate")), HasDate: true})
			}
			if rapid.IntRange(0, 5).Draw(t, "div") == 0 {
				f.Events = append(f.Events, EventBP{Tag: "DIV"})
			}
			g.Families = append(g.Families, f)
		}
		if o.Sources {
			ns := rapid.IntRange(0, 2).Draw(t, "sources")
			for i := 0; i < ns; i++ {
				g.Sources = append(g.Sources, &SourceBP{ID: fmt.Sprintf("S%d", i+1), Title: Str(fmt.Sprintf("Source %d", i+1))})
			}
		}
		g.BackLinks = rapid.Bool().Draw(t, "backlinks")
		g.FamiliesFirst = rapid.IntRange(0, 3).Draw(t, "famfirst") == 0
		g.Header = rapid.Bool().Draw(t, "header")
		return g
	})
}
