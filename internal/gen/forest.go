// Package gen holds the shared generators. Every generator produces a plain,
// JSON-serialisable blueprint; builders turn blueprints into real objects through
// the public API of the package under test.
package gen

import (
	"fmt"
	"strings"

	"github.com/elliotchance/gedcom/v39"
	"pgregory.net/rapid"
)

// NodeBP is the blueprint of one node (G1).
type NodeBP struct {
	Tag     string    `json:"t"`
	Value   Str       `json:"v,omitempty"`
	Pointer Str       `json:"p,omitempty"`
	Kids    []*NodeBP `json:"k,omitempty"`
	// Long: this many further bytes ('x') belong to the value (lines of 64 KiB and more
	// without carrying them in every serialised case)
	Long int `json:"long,omitempty"`
}

// Val is the value as it is built and rendered.
func (n *NodeBP) Val() string {
	if n.Long > 0 {
		return string(n.Value) + strings.Repeat("x", n.Long)
	}
	return string(n.Value)
}

// ForestBP is the blueprint of a document.
type ForestBP struct {
	BOM bool `json:"bom,omitempty"`
	// TopDown: children are attached with AddNode after the parent was created;
	// otherwise they are passed to the constructor (bottom-up).
	TopDown bool `json:"topdown,omitempty"`
	// Direct: role nodes directly under a family are created with that family's
	// own setters instead of being moved in from a scratch family.
	Direct bool      `json:"direct,omitempty"`
	Roots  []*NodeBP `json:"roots"`
}

// Count returns the number of nodes.
func (n *NodeBP) Count() int {
	c := 1
	for _, k := range n.Kids {
		c += k.Count()
	}
	return c
}

func (f *ForestBP) Count() int {
	c := 0
	for _, r := range f.Roots {
		c += r.Count()
	}
	return c
}

// Depth of a single node is 0.
func (n *NodeBP) Depth() int {
	d := 0
	for _, k := range n.Kids {
		if kd := k.Depth() + 1; kd > d {
			d = kd
		}
	}
	return d
}

func (f *ForestBP) Depth() int {
	d := 0
	for _, r := range f.Roots {
		if rd := r.Depth(); rd > d {
			d = rd
		}
	}
	return d
}

// Walk visits every node in document order with its depth.
func (f *ForestBP) Walk(fn func(n *NodeBP, depth int)) {
	for _, r := range f.Roots {
		r.Walk(0, fn)
	}
}

func (n *NodeBP) Walk(d int, fn func(n *NodeBP, depth int)) {
	fn(n, d)
	for _, k := range n.Kids {
		k.Walk(d+1, fn)
	}
}

// Clone makes a deep copy of the blueprint.
func (n *NodeBP) Clone() *NodeBP {
	c := &NodeBP{Tag: n.Tag, Value: n.Value, Pointer: n.Pointer, Long: n.Long}
	for _, k := range n.Kids {
		c.Kids = append(c.Kids, k.Clone())
	}
	return c
}

// SpecialisedTags are the tags for which NewNode returns a dedicated Go type
// and that can be created without a document or family.
var SpecialisedTags = []string{"BAPM", "BIRT", "BURI", "DATE", "DEAT", "EVEN", "_FID", "_FSFTID", "FORM",
	"LATI", "LONG", "MAP", "NAME", "NICK", "NOTE", "FONE", "PLAC", "RESI", "ROMN", "SEX", "SOUR", "TYPE", "_UID"}

// CustomTags are legal tags that are not registered.
var CustomTags = []string{"_X", "ZZZ", "a_b", "1", "10", "_", "x9", "NAMES", "indi", "Note", "_UIDX", "A234567890123456789012345678901"}

func IsRole(tag string) bool   { return tag == "HUSB" || tag == "WIFE" || tag == "CHIL" }
func IsRecord(tag string) bool { return tag == "INDI" || tag == "FAM" }

// KnownPlainTags are all registered tags except record and role tags.
var KnownPlainTags []string

func init() {
	for _, t := range gedcom.Tags() {
		s := t.Tag()
		if IsRole(s) || IsRecord(s) {
			continue
		}
		KnownPlainTags = append(KnownPlainTags, s)
	}
}

// PlainTag draws a tag that NewNode can build without context.
func PlainTag() *rapid.Generator[string] {
	return rapid.OneOf(
		rapid.SampledFrom(CustomTags),
		rapid.SampledFrom(SpecialisedTags),
		rapid.SampledFrom(KnownPlainTags),
		rapid.StringMatching(`[A-Za-z0-9_]{1,6}`),
	)
}

// ValuePool holds the hostile constants named in the property texts.
var ValuePool = []string{
	"", "x", "word", "two words", "@I1@", "@P1@", "@@", "@", "1 NAME x", "0 @I1@ INDI", "NAME", "10", "0",
	"a  b", "a\tb", "tab\tand  spaces", "John /Smith/", "/Smith/", "3 Sep 1943", "Bef. Oct 1943", "(phrase)",
	"Zoë Ünïcode", "日本語", "inner nbsp", "x\xffy", "\xc3", "a\xef\xbb\xbfb", "M", "F",
	"EE13561DDB204985BFFDEEBF82A5226C5B2E", "not-a-uuid", "Sydney, Australia", ", ,", "%", "<b>&\"'", "a@b.c",
	"- -", "#", "1", "9 TAG", "@I1@ extra", "\x00", "\\",
}

// SanitizeBytes turns any byte string into a GEDCOM-legal value: no line breaks
// and no surrounding whitespace (the decoder trims with strings.TrimSpace).
// Invalid UTF-8 is kept as it is.
func SanitizeBytes(s string) string {
	b := []byte(s)
	for i, c := range b {
		if c == '\n' || c == '\r' {
			b[i] = ' '
		}
	}
	return strings.TrimSpace(string(b))
}

// Value draws a GEDCOM-legal value.
func Value() *rapid.Generator[string] {
	return rapid.OneOf(
		rapid.SampledFrom(ValuePool),
		rapid.SampledFrom(ValuePool),
		rapid.StringMatching(`[a-z]{1,8}( [a-z]{1,8}){0,3}`),
		rapid.Map(rapid.String(), SanitizeBytes),
		rapid.Map(rapid.SliceOfN(rapid.Byte(), 0, 12), func(b []byte) string { return SanitizeBytes(string(b)) }),
	)
}

var PointerPool = []string{"", "", "", "I1", "P1", "F1", "S1", "a b", "x/y", "../x", "1", "I1 ", " I1", "places", "é", "\xff", "I.1", "#"}

// Pointer draws a pointer without '@' and without line breaks.
func Pointer() *rapid.Generator[string] {
	return rapid.OneOf(
		rapid.SampledFrom(PointerPool),
		rapid.StringMatching(`[A-Z][0-9]{1,3}`),
	)
}

// ForestOpts tunes Forest.
type ForestOpts struct {
	MaxNodes int
	MaxSpine int  // longest forced chain (depth)
	Records  bool // INDI / FAM nodes
	Roles    bool // HUSB / WIFE / CHIL after a family
	Nested   bool // records below level 0 and role nodes anywhere after a family
	Tag      *rapid.Generator[string]
}

// Forest draws a forest blueprint. Nodes are attached one at a time to the last
// node, to a random earlier node or as a new root, so that wide, deep and mixed
// shapes all occur; a "spine" forces a chain. Role tags are only kept when a
// family precedes them in document order (the domain the property names).
func Forest(o ForestOpts) *rapid.Generator[*ForestBP] {
	if o.Tag == nil {
		o.Tag = PlainTag()
	}
	return rapid.Custom(func(t *rapid.T) *ForestBP {
		f := &ForestBP{}
		n := rapid.IntRange(0, o.MaxNodes).Draw(t, "nodes")
		spine := 0
		if o.MaxSpine > 0 && rapid.IntRange(0, 3).Draw(t, "wantSpine") == 0 {
			spine = rapid.IntRange(1, o.MaxSpine).Draw(t, "spine")
		}
		var all []*NodeBP
		var depth []int
		mk := func(i int, root bool, underFam bool) *NodeBP {
			nb := &NodeBP{}
			kind := rapid.IntRange(0, 9).Draw(t, fmt.Sprintf("kind%d", i))
			switch {
			case o.Records && kind == 0 && (root || o.Nested):
				nb.Tag = rapid.SampledFrom([]string{"INDI", "FAM"}).Draw(t, "rec")
			case o.Roles && (kind == 1 || (underFam && kind <= 4)) && (underFam || o.Nested):
				nb.Tag = rapid.SampledFrom([]string{"HUSB", "WIFE", "CHIL"}).Draw(t, "role")
			default:
				nb.Tag = o.Tag.Draw(t, "tag")
			}
			if IsRole(nb.Tag) {
				nb.Value = Str("@" + rapid.SampledFrom([]string{"I1", "P1", "I2", "x y", "F1"}).Draw(t, "rolep") + "@")
			} else if !IsRecord(nb.Tag) {
				nb.Value = Str(Value().Draw(t, "val"))
				if rapid.IntRange(0, 1499).Draw(t, "long") == 733 { // (not 0: rapid favours the ends of a range)
					nb.Long = rapid.SampledFrom([]int{65535, 65536, 70000, 140000}).Draw(t, "longn")
				}
			}
			if !IsRole(nb.Tag) {
				if IsRecord(nb.Tag) {
					nb.Pointer = Str(rapid.SampledFrom([]string{"I1", "I2", "P1", "F1", "F2", "", "a b"}).Draw(t, "recp"))
				} else if rapid.IntRange(0, 4).Draw(t, "hasp") == 0 {
					nb.Pointer = Str(Pointer().Draw(t, "ptr"))
				}
			}
			return nb
		}
		for i := 0; i < n+spine; i++ {
			where := 0
			if i >= n {
				where = 1 // spine: always below the last node
			} else if len(all) > 0 {
				where = rapid.IntRange(0, 3).Draw(t, fmt.Sprintf("where%d", i))
			}
			switch {
			case where == 0 || len(all) == 0:
				nb := mk(i, true, false)
				f.Roots = append(f.Roots, nb)
				all, depth = append(all, nb), append(depth, 0)
			default:
				pi := len(all) - 1
				if where == 2 {
					pi = rapid.IntRange(0, len(all)-1).Draw(t, fmt.Sprintf("parent%d", i))
				}
				if depth[pi] >= 99 {
					pi = 0
				}
				p := all[pi]
				nb := mk(i, false, p.Tag == "FAM")
				p.Kids = append(p.Kids, nb)
				all, depth = append(all, nb), append(depth, depth[pi]+1)
			}
		}
		f.BOM = rapid.Bool().Draw(t, "bom")
		f.TopDown = rapid.Bool().Draw(t, "topdown")
		f.Direct = rapid.Bool().Draw(t, "direct")
		f.FixRoles()
		return f
	})
}

// FixRoles renames role tags that no family precedes in document order (the
// decoder and the constructors need a family for them) to custom tags.
func (f *ForestBP) FixRoles() {
	seenFam := false
	var rec func(n *NodeBP, underSex bool)
	rec = func(n *NodeBP, underSex bool) {
		// NewSexNode drops the children it is given, so a family below a SEX
		// node may not exist in the built document: it does not count.
		if n.Tag == "FAM" && !underSex {
			seenFam = true
		}
		if IsRole(n.Tag) && !seenFam {
			n.Tag = "_" + n.Tag
		}
		for _, k := range n.Kids {
			rec(k, underSex || n.Tag == "SEX")
		}
	}
	for _, r := range f.Roots {
		rec(r, false)
	}
}

// ---------------------------------------------------------------------------
// Builder: blueprint -> *gedcom.Document through the public API only.

type Built struct {
	Doc *gedcom.Document
	// Nodes maps every blueprint node to the node built for it.
	Nodes map[*NodeBP]gedcom.Node
}

// ValueToPointer strips the surrounding '@'.
func ValueToPointer(v string) string {
	return strings.Trim(v, "@")
}

// Build constructs the document. It panics only if the package under test does.
func (f *ForestBP) Build() *Built {
	b := &Built{Doc: gedcom.NewDocument(), Nodes: map[*NodeBP]gedcom.Node{}}
	b.Doc.HasBOM = f.BOM
	scratch := gedcom.NewDocument()
	var lastFam *gedcom.FamilyNode
	nscratch := 0

	var build func(bp *NodeBP, parent gedcom.Node, root bool) gedcom.Node
	attachKids := func(bp *NodeBP, node gedcom.Node) {
		for _, k := range bp.Kids {
			build(k, node, false)
		}
	}
	build = func(bp *NodeBP, parent gedcom.Node, root bool) gedcom.Node {
		var node gedcom.Node
		switch {
		case bp.Tag == "INDI":
			in := b.Doc.AddIndividual(string(bp.Pointer))
			if !root {
				b.Doc.DeleteNode(in)
				parent.AddNode(in)
			}
			node = in
			b.Nodes[bp] = node
			attachKids(bp, node)
		case bp.Tag == "FAM":
			fn := b.Doc.AddFamily(string(bp.Pointer))
			if !root {
				b.Doc.DeleteNode(fn)
				parent.AddNode(fn)
			}
			lastFam = fn
			node = fn
			b.Nodes[bp] = node
			attachKids(bp, node)
		case IsRole(bp.Tag):
			ptr := ValueToPointer(string(bp.Value))
			pf, parentIsFam := parent.(*gedcom.FamilyNode)
			if f.Direct && parentIsFam && pf == lastFam {
				before := len(pf.Nodes())
				switch bp.Tag {
				case "HUSB":
					pf.SetHusbandPointer(ptr)
				case "WIFE":
					pf.SetWifePointer(ptr)
				default:
					var in *gedcom.IndividualNode
					if x, ok := b.Doc.NodeByPointer(ptr).(*gedcom.IndividualNode); ok && x != nil {
						in = x
					} else {
						in = b.Doc.AddIndividual(ptr)
					}
					pf.AddChild(in)
				}
				node = pf.Nodes()[before]
			} else {
				nscratch++
				sf := scratch.AddFamily(fmt.Sprintf("S%d", nscratch))
				switch bp.Tag {
				case "HUSB":
					sf.SetHusbandPointer(ptr)
				case "WIFE":
					sf.SetWifePointer(ptr)
				default:
					sf.AddChild(scratch.AddIndividual(ptr))
				}
				node = sf.Nodes()[0]
				sf.DeleteNode(node)
				if root {
					b.Doc.AddNode(node)
				} else {
					parent.AddNode(node)
				}
			}
			b.Nodes[bp] = node
			attachKids(bp, node)
		default:
			tag := gedcom.TagFromString(bp.Tag)
			if f.TopDown {
				node = gedcom.NewNode(tag, bp.Val(), string(bp.Pointer))
				b.Nodes[bp] = node
				if root {
					b.Doc.AddNode(node)
				} else {
					parent.AddNode(node)
				}
				attachKids(bp, node)
			} else {
				// bottom-up: children first, detached, then the constructor
				holder := gedcom.NewNode(gedcom.TagFromString("_HOLD"), "", "")
				for _, k := range bp.Kids {
					build(k, holder, false)
				}
				node = gedcom.NewNode(tag, bp.Val(), string(bp.Pointer), holder.Nodes()...)
				b.Nodes[bp] = node
				if root {
					b.Doc.AddNode(node)
				} else {
					parent.AddNode(node)
				}
			}
		}
		return node
	}
	for _, r := range f.Roots {
		build(r, nil, true)
	}
	return b
}

// Render writes the blueprint as GEDCOM text with the harness's own writer
// (LF endings, one space, no trailing blanks); used for the decode routes.
func (f *ForestBP) Render() string {
	var sb strings.Builder
	if f.BOM {
		sb.WriteString("\xef\xbb\xbf")
	}
	f.Walk(func(n *NodeBP, d int) {
		sb.WriteString(RenderLine(d, n))
		sb.WriteByte('\n')
	})
	return sb.String()
}

func RenderLine(level int, n *NodeBP) string {
	s := fmt.Sprintf("%d ", level)
	if n.Pointer != "" {
		s += "@" + string(n.Pointer) + "@ "
	}
	s += n.Tag
	if n.Val() != "" {
		s += " " + n.Val()
	}
	return s
}
