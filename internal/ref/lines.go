package ref

import (
	"fmt"
	"strings"
)

// R1: the GEDCOM line grammar and tree construction, written by hand from the
// property statement: lines end at CR or LF, blank lines are ignored, a line is
//
//	level SP+ [ "@" xref "@" SP ] tag [ SP value ]
//
// with ASCII digits for the level, an xref of one or more non-'@' bytes and a tag
// of ASCII letters, digits and underscore. No regular expressions and no code
// shared with the decoder.

type Node struct {
	Level   int
	Tag     string
	Value   string
	Pointer string
	Kids    []*Node
	Line    int // 1-based index of the non-blank line
}

type LineClass int

const (
	LineParsed     LineClass = iota // inside the strict grammar
	LineUnparsable                  // certainly not a GEDCOM line
	LineUnmodelled                  // a lenient reader might or might not accept it
)

type Line struct {
	Class   LineClass
	Level   int
	Huge    bool // level does not fit an int
	Pointer string
	Tag     string
	Value   string // untrimmed
}

func isDigit(c byte) bool { return c >= '0' && c <= '9' }
func isWord(c byte) bool {
	return c == '_' || isDigit(c) || (c >= 'a' && c <= 'z') || (c >= 'A' && c <= 'Z')
}

// ScanLine classifies one line (without terminator).
func ScanLine(s string) Line {
	i := 0
	for i < len(s) && isDigit(s[i]) {
		i++
	}
	if i == 0 {
		return Line{Class: LineUnparsable}
	}
	l := Line{}
	for _, c := range []byte(s[:i]) {
		if l.Level > 1<<40 {
			l.Huge = true
		} else {
			l.Level = l.Level*10 + int(c-'0')
		}
	}
	j := i
	for j < len(s) && s[j] == ' ' {
		j++
	}
	if j == i {
		// digits not followed by a space: "12x", "5"
		return Line{Class: LineUnparsable}
	}
	if j == len(s) {
		return Line{Class: LineUnparsable} // level only
	}
	if s[j] == '@' {
		k := j + 1
		for k < len(s) && s[k] != '@' {
			k++
		}
		if k == j+1 || k >= len(s) {
			return Line{Class: LineUnparsable} // "@@" or no closing '@'
		}
		l.Pointer = s[j+1 : k]
		if k+1 >= len(s) || s[k+1] != ' ' {
			return Line{Class: LineUnparsable}
		}
		j = k + 2
		if j < len(s) && s[j] == ' ' {
			// more than one blank after the xref: strict readers reject, lenient accept
			return Line{Class: LineUnmodelled}
		}
	}
	k := j
	for k < len(s) && isWord(s[k]) {
		k++
	}
	if k == j {
		return Line{Class: LineUnparsable}
	}
	l.Tag = s[j:k]
	if k == len(s) {
		l.Class = LineParsed
		return l
	}
	if s[k] != ' ' {
		// tag glued to other bytes ("NAME/x", "NAMÉ"): outside the strict grammar
		return Line{Class: LineUnmodelled}
	}
	l.Value = s[k+1:]
	l.Class = LineParsed
	return l
}

// individual and family record lines carry no value, neither their own nor
// continuation text
func isRecord(tag string) bool { return tag == "INDI" || tag == "FAM" }

type Options struct {
	AllowMultiLine      bool
	AllowInvalidIndents bool
}

type Outcome int

const (
	OutTree       Outcome = iota // a forest was built
	OutError                     // the input must be rejected with an error
	OutPanic                     // over-deep line while invalid indents are not allowed
	OutUnmodelled                // the model does not say
)

type Result struct {
	Outcome Outcome
	BOM     bool
	Roots   []*Node
	// For OutError / OutPanic: the offending line and the range of acceptable
	// line numbers (non-blank count .. all pieces count).
	BadLine       string
	LineMin       int
	LineMax       int
	Continuations int
	Clamps        int
	Blank         int
	Lines         int
	MaxDedent     int
	Terminators   map[string]int
}

// SplitLines cuts at every CR and every LF (each is a terminator of its own).
func SplitLines(data string) []string {
	var out []string
	start := 0
	for i := 0; i < len(data); i++ {
		if data[i] == '\n' || data[i] == '\r' {
			out = append(out, data[start:i])
			start = i + 1
		}
	}
	out = append(out, data[start:])
	return out
}

// Decode is the reference decoder.
func Decode(data string, o Options) *Result {
	r := &Result{Terminators: map[string]int{}}
	if strings.HasPrefix(data, "\xef\xbb\xbf") {
		r.BOM = true
		data = data[3:]
	}
	for i := 0; i < len(data); i++ {
		switch {
		case data[i] == '\r' && i+1 < len(data) && data[i+1] == '\n':
			r.Terminators["CRLF"]++
			i++
		case data[i] == '\r':
			r.Terminators["CR"]++
		case data[i] == '\n':
			r.Terminators["LF"]++
		}
	}
	var stack []*Node
	var prev *Node
	nonBlank := 0
	seenFam := false
	unmodelled := false
	pieces := SplitLines(data)
	for pi, raw := range pieces {
		if raw == "" {
			r.Blank++
			if o.AllowMultiLine && prev != nil && !isRecord(prev.Tag) {
				prev.Value += "\n"
			}
			continue
		}
		nonBlank++
		r.Lines++
		l := ScanLine(raw)
		if l.Class == LineUnmodelled {
			unmodelled = true
			// keep going only to find certain errors is not sound; stop here
			r.Outcome = OutUnmodelled
			return r
		}
		if l.Class == LineUnparsable {
			if o.AllowMultiLine && prev != nil {
				if !isRecord(prev.Tag) {
					prev.Value += "\n" + raw
				}
				r.Continuations++
				continue
			}
			r.Outcome = OutError
			r.BadLine = raw
			r.LineMin, r.LineMax = nonBlank, pi+1
			return r
		}
		if l.Huge {
			l.Level = 1 << 41
		}
		n := &Node{Level: l.Level, Tag: l.Tag, Value: l.Value, Pointer: l.Pointer, Line: nonBlank}
		if l.Tag == "INDI" || l.Tag == "FAM" {
			n.Value = "" // individual and family record lines carry no value
		}
		if l.Tag == "FAM" {
			seenFam = true
		}
		if (l.Tag == "HUSB" || l.Tag == "WIFE" || l.Tag == "CHIL") && !seenFam {
			// a family-role line with no family before it: the property's grammar
			// only has role lines inside or after families
			r.Outcome = OutUnmodelled
			return r
		}
		level := l.Level
		if level == 0 {
			r.Roots = append(r.Roots, n)
			stack = []*Node{n}
			prev = n
			continue
		}
		if level > len(stack) {
			if !o.AllowInvalidIndents {
				r.Outcome = OutPanic
				r.BadLine = raw
				r.LineMin, r.LineMax = nonBlank, pi+1
				return r
			}
			if len(stack) == 0 {
				// over-deep line with no open node at all: the documented leniency
				// ("one level below the deepest open node") does not say
				r.Outcome = OutUnmodelled
				return r
			}
			level = len(stack)
			r.Clamps++
		}
		if len(stack) == 0 {
			// level > 0 but nothing open (only possible when level <= len(stack) == 0: never)
			r.Outcome = OutUnmodelled
			return r
		}
		if d := len(stack) - level; d > r.MaxDedent {
			r.MaxDedent = d
		}
		parent := stack[level-1]
		parent.Kids = append(parent.Kids, n)
		stack = append(stack[:level], n)
		prev = n
	}
	_ = unmodelled
	var trim func(n *Node)
	trim = func(n *Node) {
		n.Value = strings.TrimSpace(n.Value)
		for _, k := range n.Kids {
			trim(k)
		}
	}
	for _, n := range r.Roots {
		trim(n)
	}
	r.Outcome = OutTree
	return r
}

// Count returns the number of nodes of a forest.
func Count(roots []*Node) int {
	c := 0
	for _, n := range roots {
		c += 1 + Count(n.Kids)
	}
	return c
}

// Dump renders a forest canonically (for messages and comparison).
func Dump(roots []*Node) string {
	var sb strings.Builder
	var rec func(n *Node, d int)
	rec = func(n *Node, d int) {
		fmt.Fprintf(&sb, "%d|%q|%q|%q\n", d, n.Pointer, n.Tag, n.Value)
		for _, k := range n.Kids {
			rec(k, d+1)
		}
	}
	for _, n := range roots {
		rec(n, 0)
	}
	return sb.String()
}
