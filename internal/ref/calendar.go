// Package ref holds the reference models (oracles) that are written
// independently of the code under test.
package ref

// R2: proleptic Gregorian calendar by integer arithmetic only.

// IsLeap is the Gregorian leap-year rule.
func IsLeap(y int) bool { return y%4 == 0 && (y%100 != 0 || y%400 == 0) }

var monthDays = [13]int{0, 31, 28, 31, 30, 31, 30, 31, 31, 30, 31, 30, 31}

// DaysIn returns the number of days of month m (1..12) in year y.
func DaysIn(y, m int) int {
	if m == 2 && IsLeap(y) {
		return 29
	}
	return monthDays[m]
}

// DaysInYear returns 365 or 366.
func DaysInYear(y int) int {
	if IsLeap(y) {
		return 366
	}
	return 365
}

// CivilDay returns the number of days since 1 Jan 0001 (which is day 0).
func CivilDay(y, m, d int) int {
	py := y - 1
	n := py*365 + py/4 - py/100 + py/400
	for i := 1; i < m; i++ {
		n += DaysIn(y, i)
	}
	return n + d - 1
}

// FromCivilDay is the inverse of CivilDay.
func FromCivilDay(n int) (y, m, d int) {
	// estimate the year, then correct
	y = n/366 + 1
	for CivilDay(y+1, 1, 1) <= n {
		y++
	}
	n -= CivilDay(y, 1, 1)
	m = 1
	for n >= DaysIn(y, m) {
		n -= DaysIn(y, m)
		m++
	}
	return y, m, n + 1
}

// ValidDay reports whether y-m-d is a calendar day in years 1..9999.
func ValidDay(y, m, d int) bool {
	return y >= 1 && y <= 9999 && m >= 1 && m <= 12 && d >= 1 && d <= DaysIn(y, m)
}

// LastCivilDay is 31 Dec 9999.
var LastCivilDay = CivilDay(9999, 12, 31)
