package ref

import (
	"fmt"
	"strings"
)

// R8: a small HTML tokenizer and well-nestedness checker, written for machine
// generated pages. It does not implement the HTML5 error recovery rules: a page
// that needs them is reported.

type HTMLAttr struct {
	Name, Value string
	Quote       byte // '"', '\'' or 0
}

type HTMLToken struct {
	Kind  string // open | close | selfclose | text | comment | doctype | rawtext
	Name  string
	Attrs []HTMLAttr
	Text  string
	Pos   int
}

var voidElements = map[string]bool{"area": true, "base": true, "br": true, "col": true, "embed": true, "hr": true, "img": true, "input": true,
	"link": true, "meta": true, "param": true, "source": true, "track": true, "wbr": true}

func isNameByte(c byte) bool {
	return c == '-' || c == '_' || c == ':' || (c >= '0' && c <= '9') || (c >= 'a' && c <= 'z') || (c >= 'A' && c <= 'Z')
}

func isSpaceByte(c byte) bool { return c == ' ' || c == '\t' || c == '\n' || c == '\r' || c == '\f' }

// TokenizeHTML returns the tokens and the first structural problem, if any.
func TokenizeHTML(s string) ([]HTMLToken, error) {
	var toks []HTMLToken
	i := 0
	for i < len(s) {
		if s[i] != '<' {
			j := strings.IndexByte(s[i:], '<')
			if j < 0 {
				j = len(s) - i
			}
			text := s[i : i+j]
			if k := strings.IndexByte(text, '>'); k >= 0 {
				return toks, fmt.Errorf("raw '>' in text at offset %d: %q", i+k, around(s, i+k))
			}
			toks = append(toks, HTMLToken{Kind: "text", Text: text, Pos: i})
			i += j
			continue
		}
		switch {
		case strings.HasPrefix(s[i:], "<!--"):
			j := strings.Index(s[i+4:], "-->")
			if j < 0 {
				return toks, fmt.Errorf("unterminated comment at offset %d", i)
			}
			toks = append(toks, HTMLToken{Kind: "comment", Text: s[i+4 : i+4+j], Pos: i})
			i += 4 + j + 3
		case strings.HasPrefix(s[i:], "<!"):
			j := strings.IndexByte(s[i:], '>')
			if j < 0 {
				return toks, fmt.Errorf("unterminated declaration at offset %d", i)
			}
			toks = append(toks, HTMLToken{Kind: "doctype", Text: s[i : i+j+1], Pos: i})
			i += j + 1
		case strings.HasPrefix(s[i:], "</"):
			j := i + 2
			for j < len(s) && isNameByte(s[j]) {
				j++
			}
			if j == i+2 {
				return toks, fmt.Errorf("malformed end tag at offset %d: %q", i, around(s, i))
			}
			name := strings.ToLower(s[i+2 : j])
			for j < len(s) && isSpaceByte(s[j]) {
				j++
			}
			if j >= len(s) || s[j] != '>' {
				return toks, fmt.Errorf("malformed end tag </%s at offset %d: %q", name, i, around(s, i))
			}
			toks = append(toks, HTMLToken{Kind: "close", Name: name, Pos: i})
			i = j + 1
		default:
			j := i + 1
			for j < len(s) && isNameByte(s[j]) {
				j++
			}
			if j == i+1 {
				return toks, fmt.Errorf("raw '<' in text at offset %d: %q", i, around(s, i))
			}
			tok := HTMLToken{Kind: "open", Name: strings.ToLower(s[i+1 : j]), Pos: i}
			// attributes
			for {
				for j < len(s) && isSpaceByte(s[j]) {
					j++
				}
				if j >= len(s) {
					return toks, fmt.Errorf("unterminated tag <%s at offset %d", tok.Name, i)
				}
				if s[j] == '>' {
					j++
					break
				}
				if s[j] == '/' && j+1 < len(s) && s[j+1] == '>' {
					tok.Kind = "selfclose"
					j += 2
					break
				}
				k := j
				for k < len(s) && !isSpaceByte(s[k]) && s[k] != '=' && s[k] != '>' && s[k] != '/' {
					if s[k] == '"' || s[k] == '\'' || s[k] == '<' {
						return toks, fmt.Errorf("character %q in an attribute name of <%s at offset %d: %q", s[k], tok.Name, k, around(s, k))
					}
					k++
				}
				if k == j {
					return toks, fmt.Errorf("malformed attribute in <%s at offset %d: %q", tok.Name, j, around(s, j))
				}
				a := HTMLAttr{Name: strings.ToLower(s[j:k])}
				j = k
				if j < len(s) && s[j] == '=' {
					j++
					if j < len(s) && (s[j] == '"' || s[j] == '\'') {
						q := s[j]
						e := strings.IndexByte(s[j+1:], q)
						if e < 0 {
							return toks, fmt.Errorf("unterminated attribute value in <%s at offset %d", tok.Name, j)
						}
						a.Value, a.Quote = s[j+1:j+1+e], q
						j += e + 2
						if j < len(s) && !isSpaceByte(s[j]) && s[j] != '>' && s[j] != '/' {
							return toks, fmt.Errorf("text glued to the closing quote of attribute %s in <%s at offset %d: %q", a.Name, tok.Name, j, around(s, j))
						}
					} else {
						k := j
						for k < len(s) && !isSpaceByte(s[k]) && s[k] != '>' {
							k++
						}
						a.Value = s[j:k]
						j = k
					}
				}
				tok.Attrs = append(tok.Attrs, a)
			}
			toks = append(toks, tok)
			i = j
			if tok.Kind == "open" && (tok.Name == "script" || tok.Name == "style") {
				end := strings.Index(strings.ToLower(s[i:]), "</"+tok.Name)
				if end < 0 {
					return toks, fmt.Errorf("unterminated <%s> at offset %d", tok.Name, tok.Pos)
				}
				toks = append(toks, HTMLToken{Kind: "rawtext", Text: s[i : i+end], Pos: i})
				i += end
			}
		}
	}
	return toks, nil
}

func around(s string, i int) string {
	a, b := i-40, i+40
	if a < 0 {
		a = 0
	}
	if b > len(s) {
		b = len(s)
	}
	return s[a:b]
}

// CheckNesting verifies that open and close tags match.
func CheckNesting(toks []HTMLToken) error {
	var stack []HTMLToken
	for _, t := range toks {
		switch t.Kind {
		case "open":
			if !voidElements[t.Name] {
				stack = append(stack, t)
			}
		case "close":
			if voidElements[t.Name] {
				continue
			}
			if len(stack) == 0 {
				return fmt.Errorf("</%s> at offset %d closes nothing", t.Name, t.Pos)
			}
			top := stack[len(stack)-1]
			if top.Name != t.Name {
				return fmt.Errorf("</%s> at offset %d closes <%s> opened at offset %d", t.Name, t.Pos, top.Name, top.Pos)
			}
			stack = stack[:len(stack)-1]
		}
	}
	if len(stack) > 0 {
		top := stack[len(stack)-1]
		return fmt.Errorf("<%s> opened at offset %d is never closed", top.Name, top.Pos)
	}
	return nil
}

// WellFormed tokenises and checks nesting.
func WellFormed(page string) error {
	toks, err := TokenizeHTML(page)
	if err != nil {
		return err
	}
	return CheckNesting(toks)
}

// UnescapeEntities decodes the five entities html.EscapeString produces (and
// their named/decimal variants) - enough to read link targets.
func UnescapeEntities(s string) string {
	r := strings.NewReplacer("&amp;", "&", "&lt;", "<", "&gt;", ">", "&#34;", `"`, "&quot;", `"`, "&#39;", "'", "&apos;", "'")
	return r.Replace(s)
}

// Links returns every href value and every location.href='...' target of a page.
func Links(toks []HTMLToken) []string {
	var out []string
	for _, t := range toks {
		if t.Kind != "open" && t.Kind != "selfclose" {
			continue
		}
		for _, a := range t.Attrs {
			switch a.Name {
			case "href":
				out = append(out, UnescapeEntities(a.Value))
			case "onclick":
				v := UnescapeEntities(a.Value)
				const p = "location.href='"
				if i := strings.Index(v, p); i >= 0 {
					rest := v[i+len(p):]
					if j := strings.LastIndexByte(rest, '\''); j >= 0 {
						out = append(out, rest[:j])
					}
				}
			}
		}
	}
	return out
}
