// Package tu holds R5: small tree utilities over gedcom.Node used by several
// oracles (identity sets, canonical text, walks). Nothing here depends on map
// iteration order.
package tu

import (
	"fmt"
	"strings"

	"github.com/elliotchance/gedcom/v39"
)

// Walk visits n and all descendants in document order.
func Walk(n gedcom.Node, fn func(n gedcom.Node, depth int)) { walk(n, 0, fn) }

func walk(n gedcom.Node, d int, fn func(n gedcom.Node, depth int)) {
	if gedcom.IsNil(n) {
		return
	}
	fn(n, d)
	for _, k := range n.Nodes() {
		walk(k, d+1, fn)
	}
}

// All returns every node of the tree in document order.
func All(n gedcom.Node) []gedcom.Node {
	var out []gedcom.Node
	Walk(n, func(x gedcom.Node, _ int) { out = append(out, x) })
	return out
}

// Count is the number of nodes.
func Count(n gedcom.Node) int { return len(All(n)) }

// Text is the canonical GEDCOM text of a node (indent 0), "" for nil.
func Text(n gedcom.Node) string {
	if gedcom.IsNil(n) {
		return ""
	}
	return n.GEDCOMString(0)
}

// Identity is a set of node identities: the interface values and the embedded
// *SimpleNode pointers.
type Identity struct {
	nodes map[gedcom.Node]bool
	raw   map[*gedcom.SimpleNode]bool
}

func NewIdentity(roots ...gedcom.Node) *Identity {
	id := &Identity{nodes: map[gedcom.Node]bool{}, raw: map[*gedcom.SimpleNode]bool{}}
	for _, r := range roots {
		Walk(r, func(n gedcom.Node, _ int) {
			id.nodes[n] = true
			if s := n.RawSimpleNode(); s != nil {
				id.raw[s] = true
			}
		})
	}
	return id
}

func (id *Identity) Has(n gedcom.Node) bool {
	if gedcom.IsNil(n) {
		return false
	}
	return id.nodes[n] || id.raw[n.RawSimpleNode()]
}

func (id *Identity) Len() int { return len(id.nodes) }

// Shared returns the first node (document order) of tree n that is also in id.
func (id *Identity) Shared(n gedcom.Node) gedcom.Node {
	var hit gedcom.Node
	Walk(n, func(x gedcom.Node, _ int) {
		if hit == nil && id.Has(x) {
			hit = x
		}
	})
	return hit
}

// Describe is a short description of a node for messages.
func Describe(n gedcom.Node) string {
	if gedcom.IsNil(n) {
		return "<nil>"
	}
	return fmt.Sprintf("%T(%s)", n, strings.TrimSpace(n.GEDCOMLine(-1)))
}

// SameLine reports whether two nodes have identical tag, value and pointer.
func SameLine(a, b gedcom.Node) bool {
	if gedcom.IsNil(a) || gedcom.IsNil(b) {
		return false
	}
	return a.Tag().Tag() == b.Tag().Tag() && a.Value() == b.Value() && a.Pointer() == b.Pointer()
}

// Equalish is "equal" for coverage clauses: Equals in either direction, or the
// default rule (same tag, value and pointer). EVEN and RESI decide Equals from
// their children, so the plain reading would alarm on correct behaviour.
func Equalish(a, b gedcom.Node) bool {
	if gedcom.IsNil(a) || gedcom.IsNil(b) {
		return false
	}
	return SameLine(a, b) || a.Equals(b) || b.Equals(a)
}

// Covers: the input node in and its whole subtree are represented below the
// result node res: res is Equalish to in and every child of in is covered by some
// child of res. Returns the first node that is not represented.
func Covers(res, in gedcom.Node) (bool, gedcom.Node) {
	if !Equalish(res, in) {
		return false, in
	}
	return CoversKids(res, in)
}

// CoversKids is Covers without the test of the two roots themselves.
func CoversKids(res, in gedcom.Node) (bool, gedcom.Node) {
	for _, c := range in.Nodes() {
		ok := false
		var miss gedcom.Node = c
		for _, rc := range res.Nodes() {
			if r, m := Covers(rc, c); r {
				ok = true
				break
			} else if m != c {
				miss = m
			}
		}
		if !ok {
			return false, miss
		}
	}
	return true, nil
}
