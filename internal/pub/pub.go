// Package pub publishes a document into memory through the public FileWriter
// interface: every file handed to the writer is rendered and kept.
package pub

import (
	"bytes"
	"fmt"
	"strings"
	"sync"

	"github.com/elliotchance/gedcom/v39"
	"github.com/elliotchance/gedcom/v39/html"
	"github.com/elliotchance/gedcom/v39/html/core"
)

type Options struct {
	Individuals, Places, Families, Surnames, Sources, Statistics bool
	Visibility                                                   string // show | hide | placeholder
	Jobs                                                         int
	// FailAt > 0: the k-th WriteFile call (1-based) returns an error.
	FailAt int
	// FailFrom > 0: the k-th and every later WriteFile call return an error (a full disk,
	// an output directory that disappeared).
	FailFrom int
}

func All(vis string, jobs int) Options {
	return Options{true, true, true, true, true, true, vis, jobs, 0, 0}
}

// FromMask selects page groups from the low six bits.
func FromMask(mask int, vis string, jobs int) Options {
	return Options{mask&1 != 0, mask&2 != 0, mask&4 != 0, mask&8 != 0, mask&16 != 0, mask&32 != 0, vis, jobs, 0, 0}
}

type Result struct {
	Names  []string          // in the order handed to the writer, duplicates kept
	Files  map[string][]byte // last write wins
	Writes map[string]int
	Kinds  map[string][]string // the component types handed to the writer under each name
	Err    error
	Panics []string // panics while rendering a file (recovered inside the writer)
	Panic  string   // panic in NewPublisher / Publish on the calling goroutine
	Calls  int
	Failed bool // the injected failure was returned
}

type writer struct {
	mu       sync.Mutex
	res      *Result
	failAt   int
	failFrom int
}

var ErrInjected = fmt.Errorf("injected write failure")

func (w *writer) WriteFile(file *core.File) (err error) {
	w.mu.Lock()
	w.res.Calls++
	call := w.res.Calls
	w.mu.Unlock()
	if (w.failAt > 0 && call == w.failAt) || (w.failFrom > 0 && call >= w.failFrom) {
		w.mu.Lock()
		w.res.Failed = true
		w.mu.Unlock()
		return ErrInjected
	}
	var buf bytes.Buffer
	func() {
		defer func() {
			if p := recover(); p != nil {
				w.mu.Lock()
				w.res.Panics = append(w.res.Panics, fmt.Sprintf("%s: %v", file.Name, p))
				w.mu.Unlock()
			}
		}()
		_, werr := file.Component.WriteHTMLTo(&buf)
		if werr != nil {
			err = werr
		}
	}()
	w.mu.Lock()
	w.res.Names = append(w.res.Names, file.Name)
	w.res.Files[file.Name] = buf.Bytes()
	w.res.Writes[file.Name]++
	w.res.Kinds[file.Name] = append(w.res.Kinds[file.Name], strings.TrimPrefix(fmt.Sprintf("%T", file.Component), "*html."))
	w.mu.Unlock()
	return err
}

// Publish runs the publisher. Panics on the calling goroutine are recovered;
// panics in goroutines the library starts itself kill the process (callers write
// a breadcrumb first).
func Publish(doc *gedcom.Document, o Options) (res *Result) {
	res = &Result{Files: map[string][]byte{}, Writes: map[string]int{}, Kinds: map[string][]string{}}
	defer func() {
		if p := recover(); p != nil {
			res.Panic = fmt.Sprint(p)
		}
	}()
	opts := &html.PublishShowOptions{
		ShowIndividuals: o.Individuals, ShowPlaces: o.Places, ShowFamilies: o.Families,
		ShowSurnames: o.Surnames, ShowSources: o.Sources, ShowStatistics: o.Statistics,
		LivingVisibility: html.NewLivingVisibility(o.Visibility),
	}
	jobs := o.Jobs
	if jobs < 1 {
		jobs = 1
	}
	p := html.NewPublisher(doc, opts)
	res.Err = p.Publish(&writer{res: res, failAt: o.FailAt, failFrom: o.FailFrom}, jobs)
	return res
}

// Retry uses ONE Publisher twice: first with a writer that fails as o says (FailAt /
// FailFrom), then again with a writer that works (somebody freed disk space and tried again).
func Retry(doc *gedcom.Document, o Options) (first, second *Result) {
	first = &Result{Files: map[string][]byte{}, Writes: map[string]int{}, Kinds: map[string][]string{}}
	second = &Result{Files: map[string][]byte{}, Writes: map[string]int{}, Kinds: map[string][]string{}}
	cur := first
	defer func() {
		if p := recover(); p != nil {
			cur.Panic = fmt.Sprint(p)
		}
	}()
	opts := &html.PublishShowOptions{
		ShowIndividuals: o.Individuals, ShowPlaces: o.Places, ShowFamilies: o.Families,
		ShowSurnames: o.Surnames, ShowSources: o.Sources, ShowStatistics: o.Statistics,
		LivingVisibility: html.NewLivingVisibility(o.Visibility),
	}
	jobs := o.Jobs
	if jobs < 1 {
		jobs = 1
	}
	p := html.NewPublisher(doc, opts)
	first.Err = p.Publish(&writer{res: first, failAt: o.FailAt, failFrom: o.FailFrom}, jobs)
	cur = second
	second.Err = p.Publish(&writer{res: second}, jobs)
	return first, second
}
