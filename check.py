#!/usr/bin/env python3
"""Single driver for all property checks (see DESIGN.md section 2.2).

  python3 check.py CNN --tier quick|thorough     run a check (exit 0 / 1 / 2)
  python3 check.py CNN --replay <file>           re-run one saved case without rapid
  python3 check.py CNN --overlay <overlay.json>  run against a mutated tree (go -overlay)
  python3 check.py --setup                       build helper tools, warm the build cache

Exit status: 0 property held on everything explored; 1 with a line
"VIOLATION property=<id> replay=<path>"; 2 infrastructure trouble (inconclusive).
"""
import argparse
import atexit
import hashlib
import json
import os
import re
import shutil
import signal
import subprocess
import sys
import tempfile
import time

ROOT = os.path.dirname(os.path.abspath(__file__))
# every invocation builds into its own directory, so that concurrent invocations (several properties at
# once, a mutant run beside a normal run) never overwrite a binary another one is executing
BUILD = os.path.join(ROOT, ".build", "run-%d" % os.getpid())


def _sweep_build():
    shutil.rmtree(BUILD, ignore_errors=True)
    top = os.path.dirname(BUILD)
    try:
        for d in os.listdir(top):
            m = re.match(r"run-(\d+)$", d)
            if m and not os.path.exists("/proc/%s" % m.group(1)):
                shutil.rmtree(os.path.join(top, d), ignore_errors=True)
    except OSError:
        pass


atexit.register(_sweep_build)
REPO = "/repo"
GOENV = {
    "GOFLAGS": "-mod=mod",
    "GOPROXY": "off",
    "GOSUMDB": "off",
    "GOTOOLCHAIN": "local",
}

# Per-property configuration. shards: number of child processes; race: also build
# and run a -race binary; cli: needs the gedcom command line binary;
# timeout: per-child wall-clock guard in seconds (quick, thorough) - a guard hit is
# exit 2 (inconclusive), never a violation.
CONFIG = {
    "C01": dict(shards=16, timeout=(600, 3600)),
    "C02": dict(shards=16, timeout=(600, 3600), fuzz=["FuzzDecodeTree"]),
    "C03": dict(shards=16, timeout=(600, 3600), fuzz=["FuzzDecodeNoCrash"]),
    "C04": dict(shards=8, timeout=(600, 3600), fuzz=["FuzzDateRoundTrip"]),
    "C05": dict(shards=16, timeout=(600, 3600)),
    "C06": dict(shards=8, timeout=(600, 3600)),
    "C07": dict(shards=16, timeout=(600, 3600)),
    "C08": dict(shards=16, timeout=(600, 3600)),
    "C09": dict(shards=16, timeout=(600, 3600)),
    "C10": dict(shards=16, timeout=(600, 3600)),
    "C11": dict(shards=8, timeout=(900, 5400), race=True, cli=True),
    "C12": dict(shards=16, timeout=(600, 3600)),
    "C13": dict(shards=16, timeout=(900, 7200)),
    "C14": dict(shards=16, timeout=(900, 5400), cli=True),
    "C15": dict(shards=16, timeout=(900, 5400), cli=True, fuzz=["FuzzQuery"]),
    "C16": dict(shards=16, timeout=(900, 5400)),
    "C17": dict(shards=16, timeout=(900, 5400)),
    "C18": dict(shards=16, timeout=(900, 7200)),
    "C19": dict(shards=8, timeout=(900, 5400), race=True),
    "C20": dict(shards=16, timeout=(600, 3600), cli=True),
}


LIVE_GROUPS = set()


def kill_group(pgid):
    """Kill what is left of a shard's process group (orphaned CLI runs of a hanging tree)."""
    try:
        os.killpg(pgid, signal.SIGKILL)
    except (ProcessLookupError, PermissionError, OSError):
        pass
    LIVE_GROUPS.discard(pgid)


def _kill_all_groups(*_a):
    for g in list(LIVE_GROUPS):
        kill_group(g)


atexit.register(_kill_all_groups)


def _on_term(signum, frame):
    _kill_all_groups()
    sys.exit(2)


def env_for_go():
    e = dict(os.environ)
    e.update(GOENV)
    return e


def log(*a):
    print(*a, flush=True)


def run(cmd, env=None, timeout=None, cwd=ROOT):
    """subprocess.run in a process group of its own that is killed afterwards (see kill_group)."""
    p = subprocess.Popen(cmd, cwd=cwd, env=env, stdout=subprocess.PIPE, stderr=subprocess.STDOUT, text=True,
                         errors="replace", start_new_session=True)
    LIVE_GROUPS.add(p.pid)
    try:
        out, _ = p.communicate(timeout=timeout)
    except subprocess.TimeoutExpired as ex:
        kill_group(p.pid)
        out, _ = p.communicate()
        raise subprocess.TimeoutExpired(cmd, timeout, output=(ex.output or "") if isinstance(ex.output, str) else out)
    finally:
        kill_group(p.pid)
    return subprocess.CompletedProcess(cmd, p.returncode, out, None)


def build(prop, overlay=None, race=False):
    """(Re)build the test binary of a property from /repo's current working tree."""
    os.makedirs(BUILD, exist_ok=True)
    pkg = "./checks/" + prop.lower()
    out = os.path.join(BUILD, prop.lower() + (".race" if race else "") + (".mut" if overlay else "") + ".test")
    cmd = ["go", "test", "-c", "-tags", "verif", "-vet=off", "-o", out]
    if race:
        cmd.append("-race")
    if overlay:
        cmd += ["-overlay", overlay]
    cmd.append(pkg)
    r = run(cmd, env=env_for_go(), timeout=1800)
    if r.returncode != 0:
        log("BUILD FAILED (%s):\n%s" % (" ".join(cmd), r.stdout[-4000:]))
        return None
    return out


def build_cli(overlay=None, race=False):
    out = os.path.join(BUILD, "gedcom" + ("-race" if race else "") + ("-mut" if overlay else ""))
    cmd = ["go", "build", "-tags", "verif", "-o", out]
    if race:
        cmd.append("-race")
    if overlay:
        cmd += ["-overlay", overlay]
    cmd.append("github.com/elliotchance/gedcom/v39/cmd/gedcom")
    r = run(cmd, env=env_for_go(), timeout=1800)
    if r.returncode != 0:
        log("BUILD FAILED (%s):\n%s" % (" ".join(cmd), r.stdout[-4000:]))
        return None
    return out


def build_vmerge():
    out = os.path.join(BUILD, "vmerge")
    os.makedirs(BUILD, exist_ok=True)
    r = run(["go", "build", "-o", out, "./cmd/vmerge"], env=env_for_go(), timeout=600)
    if r.returncode != 0:
        log("BUILD FAILED vmerge:\n" + r.stdout[-2000:])
        return None
    return out


def load_findings(prop):
    path = os.path.join(ROOT, "known_findings.json")
    try:
        with open(path) as f:
            data = json.load(f)
    except FileNotFoundError:
        return []
    out = []
    for f in data.get("findings", []):
        if f.get("property") == prop and f.get("status") == "open":
            f = dict(f)
            f["sigs"] = list(f.get("sigs") or []) + ([f["sig"]] if f.get("sig") else [])
            out.append(f)
    return out


def classify_crash(output):
    """Reduce the stderr of a dead child to a stable signature."""
    m = re.search(r"WARNING: DATA RACE", output)
    if m:
        funcs = re.findall(r"^\s+(github\.com/elliotchance/gedcom/v39[^\s(]*)\(", output, re.M)
        uniq = []
        for f in funcs:
            f = f.replace("github.com/elliotchance/gedcom/v39", "gedcom")
            if f not in uniq:
                uniq.append(f)
            if len(uniq) == 2:
                break
        return "race:" + "|".join(sorted(uniq))
    m = re.search(r"fatal error: ([^\n]*)", output)
    if m:
        return "fatal:" + m.group(1).strip()
    m = re.search(r"panic: ([^\n]*)", output)
    if m:
        val = re.sub(r"0x[0-9a-f]+", "0x?", m.group(1).strip())
        val = re.sub(r"\[recovered\]", "", val).strip()
        fm = re.search(r"^(github\.com/elliotchance/gedcom/v39[^\s(]*)\(", output[m.end():], re.M)
        fn = fm.group(1).replace("github.com/elliotchance/gedcom/v39", "gedcom") if fm else "?"
        return "panic:%s@%s" % (val[:80], fn)
    return "died"


def child_env(prop, tier, seed, shard, nshards, out, crumb, extra=None):
    e = env_for_go()
    e.update({
        "VERIF_TIER": tier, "VERIF_SEED": str(seed), "VERIF_SHARD": str(shard),
        "VERIF_NSHARDS": str(nshards), "VERIF_OUT": out, "VERIF_CRUMB": crumb,
        "VERIF_FINDINGS": os.path.join(ROOT, "known_findings.json"),
        "VERIF_ROOT": ROOT, "VERIF_BUILD": BUILD,
    })
    if extra:
        e.update(extra)
    return e


def run_replay(binary, prop, path, scratch, extra=None):
    """Run one saved case through the library-free oracle. Returns (status, sig, msg)."""
    crumb = os.path.join(scratch, "replay.crumb")
    e = child_env(prop, "quick", 1, 0, 1, "", crumb, extra)
    e["VERIF_REPLAY"] = path
    e.pop("VERIF_OUT")
    try:
        r = run([binary, "-test.run", "^TestReplay$", "-test.timeout", "300s"], env=e, timeout=400)
    except subprocess.TimeoutExpired:
        return ("fail", "hang", "replay did not terminate within 400 s")
    m = re.search(r"^REPLAY-RESULT (\w+)(?: sig=(\S+))?(?: msg=(.*))?$", r.stdout, re.M)
    if not m:
        if r.returncode != 0:
            sig = classify_crash(r.stdout)
            return ("fail", "crash:" + sig, r.stdout[-1500:])
        return ("error", "", "no REPLAY-RESULT line:\n" + r.stdout[-1500:])
    if m.group(1) == "ok":
        return ("ok", "", "")
    if m.group(1) == "fail":
        return ("fail", m.group(2) or "", m.group(3) or "")
    return ("error", "", r.stdout[-1500:])


def save_replay(prop, sub, case):
    d = os.path.join(ROOT, "replays", prop.lower())
    os.makedirs(d, exist_ok=True)
    body = json.dumps({"property": prop, "sub": sub, "case": case}, sort_keys=True)
    name = hashlib.sha1(body.encode()).hexdigest()[:16] + ".json"
    path = os.path.join(d, name)
    with open(path, "w") as f:
        f.write(body)
    return path


def run_fuzz(prop, target, scratch, extra, overlay, execs):
    """Count-bounded native fuzz campaign. The target puts its own oracle inside and writes a
    replay file into VERIF_FUZZ_OUT before failing."""
    pkgdir = os.path.join(ROOT, "checks", prop.lower())
    cache = os.path.join(scratch, "fuzzcache-" + target)
    outdir = os.path.join(scratch, "fuzzout-" + target)
    os.makedirs(outdir, exist_ok=True)
    crashdir = os.path.join(pkgdir, "testdata", "fuzz", target)
    before = set(os.listdir(crashdir)) if os.path.isdir(crashdir) else set()
    e = child_env(prop, "thorough", 1, 0, 1, "", os.path.join(scratch, "fuzz.crumb"), extra)
    e.pop("VERIF_OUT")
    e["VERIF_FUZZ_OUT"] = outdir
    cmd = ["go", "test", "-tags", "verif", "-vet=off", "-run", "^$", "-fuzz", "^%s$" % target,
           "-fuzztime", "%dx" % execs, "-test.fuzzcachedir", cache]
    if overlay:
        cmd += ["-overlay", os.path.abspath(overlay)]
    cmd.append(".")
    t0 = time.time()
    try:
        r = run(cmd, env=e, cwd=pkgdir, timeout=3600)
        out, rc = r.stdout, r.returncode
    except subprocess.TimeoutExpired as ex:
        out, rc = (ex.stdout or ""), 0
        if isinstance(out, bytes):
            out = out.decode(errors="replace")
    m = re.findall(r"execs: (\d+)", out)
    n = int(m[-1]) if m else 0
    interesting = re.findall(r"new interesting: (\d+)", out)
    res = dict(evaluations=n, distinct_nontrivial=0, exhaustive=False, requested=execs, executed=n,
               rule="go test -fuzz=%s, %d executions requested, oracle inside the target; coverage-guided, not seedable; "
                    "'new interesting' inputs found: %s" % (target, execs, interesting[-1] if interesting else "?"),
               classes={}, excluded_known={}, samples=[], notes=["wall %.0f s" % (time.time() - t0)], violations=[])
    # new crashers: the target wrote a replay for each failing input
    for name in sorted(os.listdir(outdir)):
        try:
            with open(os.path.join(outdir, name)) as f:
                v = json.load(f)
            res["violations"].append(v)
        except Exception:
            pass
    after = set(os.listdir(crashdir)) if os.path.isdir(crashdir) else set()
    for name in after - before:
        os.remove(os.path.join(crashdir, name))  # the replay file is the reproducible unit
    try:
        os.removedirs(crashdir)
    except OSError:
        pass
    open_sigs = {sg for f in load_findings(prop) for sg in f["sigs"]}
    res["violations"] = [v for v in res["violations"] if v.get("sig") not in open_sigs]
    if rc != 0 and not res["violations"]:
        if "FAIL" in out and "--- FAIL" in out:
            res["infra"] = "fuzz target %s failed without writing a replay:\n%s" % (target, out[-2000:])
    return res


def main():
    signal.signal(signal.SIGTERM, _on_term)
    signal.signal(signal.SIGINT, _on_term)
    ap = argparse.ArgumentParser()
    ap.add_argument("prop", nargs="?")
    ap.add_argument("--tier", default=os.environ.get("VERIF_TIER", "quick"), choices=["quick", "thorough"])
    ap.add_argument("--replay")
    ap.add_argument("--overlay")
    ap.add_argument("--setup", action="store_true")
    ap.add_argument("--shards", type=int)
    ap.add_argument("--no-evidence", action="store_true", help="do not rewrite evidence (mutant runs)")
    ap.add_argument("--run", default="^TestCheck", help="go test -run pattern for the generated tier")
    args = ap.parse_args()

    if args.setup:
        ok = build_vmerge() is not None
        for p in sorted(CONFIG):
            if os.path.isdir(os.path.join(ROOT, "checks", p.lower())):
                ok = (build(p) is not None) and ok
        sys.exit(0 if ok else 2)

    prop = (args.prop or "").upper()
    if prop not in CONFIG or not os.path.isdir(os.path.join(ROOT, "checks", prop.lower())):
        log("unknown property %r" % prop)
        sys.exit(2)
    cfg = CONFIG[prop]
    tier = args.tier
    try:
        seed = int(os.environ.get("VERIF_SEED", "1"))
    except ValueError:
        seed = 1
    t0 = time.time()
    overlay = os.path.abspath(args.overlay) if args.overlay else None

    binary = build(prop, overlay)
    if binary is None:
        sys.exit(2)
    extra = {}
    if cfg.get("race"):
        rb = build(prop, overlay, race=True)
        if rb is None:
            sys.exit(2)
        extra["VERIF_RACE_BIN"] = rb
    if cfg.get("cli"):
        cli = build_cli(overlay)
        if cli is None:
            sys.exit(2)
        extra["VERIF_CLI"] = cli
        if cfg.get("race"):
            clir = build_cli(overlay, race=True)
            if clir is None:
                sys.exit(2)
            extra["VERIF_CLI_RACE"] = clir
    vmerge = build_vmerge()
    if vmerge is None:
        sys.exit(2)

    scratch = tempfile.mkdtemp(prefix="verif-%s-" % prop.lower())
    extra["VERIF_SCRATCH"] = scratch
    try:
        code = drive(prop, cfg, tier, seed, binary, extra, scratch, args, t0, vmerge)
    finally:
        shutil.rmtree(scratch, ignore_errors=True)
    sys.exit(code)


def drive(prop, cfg, tier, seed, binary, extra, scratch, args, t0, vmerge):
    # --- single replay -------------------------------------------------------
    if args.replay:
        st, sig, msg = run_replay(binary, prop, os.path.abspath(args.replay), scratch, extra)
        if st == "ok":
            log("replay passes: property %s holds on %s" % (prop, args.replay))
            return 0
        if st == "fail":
            log("replay fails: sig=%s %s" % (sig, msg))
            log("VIOLATION property=%s replay=%s" % (prop, os.path.abspath(args.replay)))
            return 1
        log("replay error: " + msg)
        return 2

    violations = []   # (sub, sig, msg, replay path)
    known_lines = []
    infra = []

    # --- replay tier: witnesses of listed findings, committed corpus -----------
    findings = load_findings(prop)
    open_sigs = {sg: f for f in findings for sg in f["sigs"]}
    for f in findings:
        w = os.path.join(ROOT, f["witness"])
        st, sig, msg = run_replay(binary, prop, w, scratch, extra)
        if st == "fail" and sig in f["sigs"]:
            known_lines.append("KNOWN-FINDING: property=%s %s [%s]" % (prop, f["what"], f["id"]))
        elif st == "fail":
            if sig in open_sigs:
                known_lines.append("KNOWN-FINDING: property=%s %s [%s]" % (prop, open_sigs[sig]["what"], open_sigs[sig]["id"]))
            else:
                violations.append(("replay", sig, "witness of %s now fails differently: %s" % (f["id"], msg), w))
        elif st == "ok":
            log("note: witness of listed finding %s no longer fails (defect gone?)" % f["id"])
        else:
            infra.append("replay of %s: %s" % (w, msg))
    corpus = os.path.join(ROOT, "corpus", prop.lower())
    n_corpus = 0
    if os.path.isdir(corpus):
        for name in sorted(os.listdir(corpus)):
            if not name.endswith(".json"):
                continue
            n_corpus += 1
            w = os.path.join(corpus, name)
            st, sig, msg = run_replay(binary, prop, w, scratch, extra)
            if st == "fail" and sig not in open_sigs:
                violations.append(("replay", sig, msg, w))
                if sig == "hang" or "timed out" in sig:
                    # every further case would cost the same five minutes
                    log("note: a corpus case does not terminate; the remaining corpus cases are skipped")
                    break
            elif st == "error":
                infra.append("replay of %s: %s" % (w, msg))

    # --- generated tier -------------------------------------------------------
    nshards = args.shards or cfg["shards"]
    ncpu = os.cpu_count() or 4
    nshards = max(1, min(nshards, ncpu))
    guard = cfg["timeout"][0 if tier == "quick" else 1]
    procs = []
    for sh in range(nshards):
        out = os.path.join(scratch, "frag%d.json" % sh)
        crumb = os.path.join(scratch, "crumb%d.json" % sh)
        logf = open(os.path.join(scratch, "log%d.txt" % sh), "w")
        e = child_env(prop, tier, seed, sh, nshards, out, crumb, extra)
        # every shard is the leader of its own process group: whatever it started (CLI runs, race
        # children) is killed with it when it is done, however it ended
        p = subprocess.Popen([binary, "-test.run", args.run, "-test.timeout", "%ds" % guard, "-test.v"],
                             cwd=scratch, env=e, stdout=logf, stderr=subprocess.STDOUT, start_new_session=True)
        LIVE_GROUPS.add(p.pid)
        procs.append((sh, p, out, crumb, logf))
    deadline = time.time() + guard + 60
    frags = []
    for sh, p, out, crumb, logf in procs:
        try:
            p.wait(timeout=max(1, deadline - time.time()))
        except subprocess.TimeoutExpired:
            p.kill()
            p.wait()
            infra.append("shard %d exceeded the wall-clock guard of %d s (inconclusive)" % (sh, guard))
        kill_group(p.pid)
        logf.close()
        text = open(logf.name, errors="replace").read()
        if os.path.exists(out):
            with open(out) as f:
                frags.append(json.load(f))
            fr = frags[-1]
            if fr["exit_code"] != 0 and not fr["violations"]:
                # a Go test failed without a recorded violation: harness problem or budget
                if "test timed out" in text or "panic: test timed out" in text:
                    infra.append("shard %d: go test deadline hit" % sh)
                else:
                    infra.append("shard %d: test failed without a recorded violation:\n%s" % (sh, text[-3000:]))
        else:
            # the child died: breadcrumb is the failing case
            if "test timed out" in text:
                infra.append("shard %d: go test deadline hit (inconclusive)\n%s" % (sh, text[-1500:]))
                continue
            if p.returncode is not None and p.returncode < 0 and p.returncode != -6:
                infra.append("shard %d killed by signal %d" % (sh, -p.returncode))
                continue
            if "cannot allocate memory" in text or "out of memory" in text:
                infra.append("shard %d: out of memory" % sh)
                continue
            sig = "crash:" + classify_crash(text)
            case = None
            sub = "crash"
            if os.path.exists(crumb):
                try:
                    with open(crumb) as f:
                        c = json.load(f)
                    case, sub = c.get("case"), c.get("sub", "crash")
                except Exception:
                    pass
            if case is None:
                infra.append("shard %d died without evidence fragment or breadcrumb:\n%s" % (sh, text[-3000:]))
                continue
            if sig in open_sigs:
                known_lines.append("KNOWN-FINDING: property=%s %s [%s]" % (prop, open_sigs[sig]["what"], open_sigs[sig]["id"]))
                infra.append("shard %d died on a listed finding (%s); its remaining budget was not explored" % (sh, sig))
                continue
            path = save_replay(prop, sub, case)
            violations.append((sub, sig, text[-1500:], path))

    for fr in frags:
        for v in fr.get("violations") or []:
            path = save_replay(prop, v["sub"], v["case"])
            violations.append((v["sub"], v["sig"], v["msg"], path))

    # --- native coverage-guided fuzzing (thorough tier only; cannot be seeded) -------
    fuzz_subs = {}
    if tier == "thorough" and cfg.get("fuzz") and not violations:
        for target in cfg["fuzz"]:
            res = run_fuzz(prop, target, scratch, extra, args.overlay, cfg.get("fuzz_execs", 3000000))
            fuzz_subs["fuzz:" + target] = res
            for v in res.pop("violations"):
                path = save_replay(prop, v["sub"], v["case"])
                violations.append((v["sub"], v["sig"], v["msg"], path))
            if res.get("infra"):
                infra.append(res["infra"])

    # --- evidence ---------------------------------------------------------------
    subs = {}
    assumptions = []
    for fr in frags:
        for a in fr.get("assumptions") or []:
            if a not in assumptions:
                assumptions.append(a)
        for s in fr["subs"]:
            d = subs.setdefault(s["name"], dict(rule=s["rule"], evaluations=0, nt_constr=0, classes={}, samples=[],
                                                excluded_known={}, exhaustive=True, requested=0, executed=0,
                                                hash_files=[], notes=[]))
            d["evaluations"] += s["evaluations"]
            d["nt_constr"] += s["nontrivial_by_construction"]
            for k, v in (s.get("classes") or {}).items():
                d["classes"][k] = d["classes"].get(k, 0) + v
            for k, v in (s.get("excluded_known") or {}).items():
                d["excluded_known"][k] = d["excluded_known"].get(k, 0) + v
            for x in s.get("samples") or []:
                if len(d["samples"]) < 6:
                    d["samples"].append(x)
            d["exhaustive"] = d["exhaustive"] and bool(s.get("exhaustive"))
            d["requested"] += s.get("requested", 0)
            d["executed"] += s.get("executed", 0)
            if s.get("hash_file"):
                d["hash_files"].append(s["hash_file"])
            for n in s.get("notes") or []:
                if n not in d["notes"] and len(d["notes"]) < 20:
                    d["notes"].append(n)
    total_evals = 0
    total_nt = 0
    subchecks = {}
    samples = []
    rules = []
    excluded_total = {}
    all_exh = bool(subs)
    for name in sorted(subs):
        d = subs[name]
        nt = d["nt_constr"]
        if d["hash_files"]:
            r = run([vmerge] + d["hash_files"])
            try:
                nt += int(r.stdout.strip().splitlines()[-1])
            except Exception:
                infra.append("vmerge failed: " + r.stdout[-500:])
        total_evals += d["evaluations"]
        total_nt += nt
        all_exh = all_exh and d["exhaustive"]
        for k, v in d["excluded_known"].items():
            excluded_total[k] = excluded_total.get(k, 0) + v
        subchecks[name] = dict(evaluations=d["evaluations"], distinct_nontrivial=nt, rule=d["rule"],
                               classes=dict(sorted(d["classes"].items())), exhaustive=d["exhaustive"],
                               requested=d["requested"], executed=d["executed"],
                               excluded_known=d["excluded_known"], samples=d["samples"][:3], notes=d["notes"])
        rules.append("%s: %s" % (name, d["rule"]))
        for x in d["samples"][:2]:
            samples.append({"subcheck": name, "case": x})
        if d["requested"] and d["executed"] < d["requested"] and not violations and not d["excluded_known"]:
            infra.append("sub-check %s executed %d of %d requested cases" % (name, d["executed"], d["requested"]))
    for name, res in fuzz_subs.items():
        subchecks[name] = res
        total_evals += res["evaluations"]
        rules.append("%s: %s" % (name, res["rule"]))
    wall = time.time() - t0
    ev = {
        "property_id": prop, "tier": tier, "seed": seed, "level": "exploration",
        "coverage": {
            "evaluations": total_evals, "distinct_nontrivial": total_nt,
            "rule": " || ".join(rules), "samples": samples, "exhaustive": all_exh,
            "exhaustive_subchecks": [n for n in sorted(subs) if subs[n]["exhaustive"]],
            "subchecks": subchecks, "excluded_known": excluded_total,
            "replayed_corpus_cases": n_corpus, "replayed_finding_witnesses": len(findings),
            "shards": nshards,
        },
        "assumptions": assumptions,
        "wall_s": round(wall, 2),
        "violations": len(violations),
    }
    if infra:
        ev["coverage"]["inconclusive"] = [x[:500] for x in infra]
    if not args.no_evidence and not args.overlay:
        os.makedirs(os.path.join(ROOT, "evidence"), exist_ok=True)
        with open(os.path.join(ROOT, "evidence", prop + ".json"), "w") as f:
            json.dump(ev, f, indent=1, sort_keys=True)
            f.write("\n")

    # --- verdict --------------------------------------------------------------
    for line in sorted(set(known_lines)):
        log(line)
    log("%s %s seed=%d: %d evaluations, %d distinct non-trivial, %d sub-checks, excluded_known=%s, %.1f s" %
        (prop, tier, seed, total_evals, total_nt, len(subs), excluded_total, wall))
    for name in sorted(subchecks):
        s = subchecks[name]
        log("  %-30s evals=%-9d nontrivial=%-9d%s" % (name, s["evaluations"], s["distinct_nontrivial"],
                                                      " exhaustive" if s["exhaustive"] else ""))
    if violations:
        # one line per (sub-check, signature): the smallest replay wins
        best = {}
        for sub, sig, msg, path in violations:
            try:
                size = os.path.getsize(path)
            except OSError:
                size = 1 << 60
            if (sub, sig) not in best or size < best[(sub, sig)][0]:
                best[(sub, sig)] = (size, sub, sig, msg, path)
        for key in sorted(best):
            _, sub, sig, msg, path = best[key]
            log("violation in %s [%s]: %s" % (sub, sig, msg[:1500]))
            log("VIOLATION property=%s replay=%s" % (prop, path))
        return 1
    if infra:
        for x in infra:
            log("INCONCLUSIVE: " + x)
        return 2
    if total_evals == 0:
        log("INCONCLUSIVE: nothing was evaluated")
        return 2
    return 0


if __name__ == "__main__":
    main()
